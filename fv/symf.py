"""SymF -- binary64 proxies (z3 FloatingPoint terms, round-to-nearest-even) for the symx explorer.
Python float semantics modelled: + - * / are IEEE operations (division by zero raises ZeroDivisionError),
x**2 is fl(x*x) and x**0.5 is the correctly rounded square root (glibc pow is assumed to agree; every
counterexample is replayed concretely), comparisons are IEEE comparisons (NaN compares false)."""
import math as _math
import z3
from fv import symx, smt
from fv.symx import SymBool, _ctx, Inconclusive

F64 = z3.Float64()
RNE = z3.RNE()


def fval(x):
    return z3.FPVal(float(x), F64)


def liftf(x):
    if isinstance(x, SymF):
        return x.e
    if isinstance(x, bool):
        return fval(float(x))
    if isinstance(x, int):
        if float(x) != x:
            raise Inconclusive("integer not representable in binary64")
        return fval(float(x))
    if isinstance(x, float):
        return fval(x)
    return None


class SymF:
    __slots__ = ('e',)
    _fv_float = True

    def __init__(self, e):
        self.e = e

    def _bin(self, o, f, swap=False):
        oe = liftf(o)
        if oe is None:
            return NotImplemented
        return SymF(f(oe, self.e) if swap else f(self.e, oe))

    def __add__(self, o):
        return self._bin(o, lambda a, b: z3.fpAdd(RNE, a, b))

    def __radd__(self, o):
        return self._bin(o, lambda a, b: z3.fpAdd(RNE, a, b), True)

    def __sub__(self, o):
        return self._bin(o, lambda a, b: z3.fpSub(RNE, a, b))

    def __rsub__(self, o):
        return self._bin(o, lambda a, b: z3.fpSub(RNE, a, b), True)

    def __mul__(self, o):
        return self._bin(o, lambda a, b: z3.fpMul(RNE, a, b))

    def __rmul__(self, o):
        return self._bin(o, lambda a, b: z3.fpMul(RNE, a, b), True)

    def __truediv__(self, o):
        oe = liftf(o)
        if oe is None:
            return NotImplemented
        if _ctx().branch(z3.fpIsZero(oe)):
            raise ZeroDivisionError("float division by zero")
        return SymF(z3.fpDiv(RNE, self.e, oe))

    def __rtruediv__(self, o):
        oe = liftf(o)
        if oe is None:
            return NotImplemented
        if _ctx().branch(z3.fpIsZero(self.e)):
            raise ZeroDivisionError("float division by zero")
        return SymF(z3.fpDiv(RNE, oe, self.e))

    def __neg__(self):
        return SymF(z3.fpNeg(self.e))

    def __pos__(self):
        return self

    def __abs__(self):
        return SymF(z3.fpAbs(self.e))

    def __pow__(self, k):
        if isinstance(k, (int, float)) and not isinstance(k, bool) and k == 2:
            r = z3.fpMul(RNE, self.e, self.e)
            if _ctx().branch(z3.And(z3.fpIsInf(r), z3.Not(z3.fpIsInf(self.e)))):
                raise OverflowError("(34, 'Numerical result out of range')")
            return SymF(r)
        if isinstance(k, float) and k == 0.5:
            if _ctx().branch(z3.And(z3.fpIsNegative(self.e), z3.Not(z3.fpIsZero(self.e)), z3.Not(z3.fpIsNaN(self.e)),
                                    z3.Not(z3.fpIsInf(self.e)))):
                # python: negative ** 0.5 gives a complex number; FRAME code would then fail later
                raise Inconclusive("negative base ** 0.5 (complex result)")
            return SymF(z3.fpSqrt(RNE, self.e))
        raise Inconclusive(f"float pow with exponent {k!r}")

    def _cmp(self, o, f):
        oe = liftf(o)
        if oe is None:
            return NotImplemented
        return SymBool(f(self.e, oe))

    def __lt__(self, o):
        return self._cmp(o, z3.fpLT)

    def __le__(self, o):
        return self._cmp(o, z3.fpLEQ)

    def __gt__(self, o):
        return self._cmp(o, z3.fpGT)

    def __ge__(self, o):
        return self._cmp(o, z3.fpGEQ)

    def __eq__(self, o):
        oe = liftf(o) if isinstance(o, (SymF, int, float)) else None
        if oe is None:
            return False
        return SymBool(z3.fpEQ(self.e, oe))

    def __ne__(self, o):
        r = self.__eq__(o)
        return SymBool(z3.Not(r.e)) if isinstance(r, SymBool) else True

    def __hash__(self):
        return 13

    def __bool__(self):
        return _ctx().branch(z3.Not(z3.fpIsZero(self.e)))

    def __float__(self):
        raise Inconclusive("float() of a symbolic binary64 at a C boundary")

    def __repr__(self):
        return f"SymF({self.e})"


import numbers
numbers.Real.register(SymF)


def is_finite(x):
    if isinstance(x, SymF):
        return SymBool(z3.And(z3.Not(z3.fpIsNaN(x.e)), z3.Not(z3.fpIsInf(x.e))))
    return _math.isfinite(x)


class FMath:
    """`math` facade for binary64 proxies"""
    pi = _math.pi
    inf = _math.inf

    def __getattr__(self, name):
        return getattr(_math, name)

    @staticmethod
    def sqrt(x):
        if not isinstance(x, SymF):
            return _math.sqrt(x)
        if _ctx().branch(z3.And(z3.fpLT(x.e, fval(0.0)))):
            raise ValueError("math domain error")
        return SymF(z3.fpSqrt(RNE, x.e))

    @staticmethod
    def acos(x):
        if not isinstance(x, SymF):
            return _math.acos(x)
        c = _ctx()
        # libm: NaN passes through; |x| > 1 is a domain error
        if c.branch(z3.Or(z3.fpLT(x.e, fval(-1.0)), z3.fpGT(x.e, fval(1.0)))):
            raise ValueError("math domain error")
        r = z3.FP(c.fresh_name("acos").replace('!', '_'), F64)
        c.aux[str(r)] = r
        c.add(z3.Or(z3.fpIsNaN(x.e), z3.And(z3.fpGEQ(r, fval(0.0)), z3.fpLEQ(r, fval(_math.pi)))))
        c.add(z3.fpIsNaN(r) == z3.fpIsNaN(x.e))
        return SymF(r)

    @staticmethod
    def asin(x):
        if not isinstance(x, SymF):
            return _math.asin(x)
        c = _ctx()
        if c.branch(z3.Or(z3.fpLT(x.e, fval(-1.0)), z3.fpGT(x.e, fval(1.0)))):
            raise ValueError("math domain error")
        r = z3.FP(c.fresh_name("asin").replace('!', '_'), F64)
        c.aux[str(r)] = r
        c.add(z3.Or(z3.fpIsNaN(x.e), z3.And(z3.fpGEQ(r, fval(-_math.pi / 2)), z3.fpLEQ(r, fval(_math.pi / 2)))))
        c.add(z3.fpIsNaN(r) == z3.fpIsNaN(x.e))
        return SymF(r)

    @staticmethod
    def sin(x):
        if not isinstance(x, SymF):
            return _math.sin(x)
        c = _ctx()
        r = z3.FP(c.fresh_name("sin").replace('!', '_'), F64)
        c.aux[str(r)] = r
        c.add(z3.Or(z3.And(z3.fpGEQ(r, fval(-1.0)), z3.fpLEQ(r, fval(1.0))), z3.fpIsNaN(x.e), z3.fpIsInf(x.e)))
        # on [0, pi_binary64] the sine is non-negative (pi_binary64 < pi, so even the right end-point has a positive sine)
        c.add(z3.Implies(z3.And(z3.fpGEQ(x.e, fval(0.0)), z3.fpLEQ(x.e, fval(_math.pi))), z3.fpGEQ(r, fval(0.0))))
        return SymF(r)

    @staticmethod
    def isfinite(x):
        r = is_finite(x)
        return bool(r) if isinstance(r, SymBool) else r


FMATH = FMath()


class FCtx(symx.Ctx):
    """Ctx whose slow queries go to the subprocess portfolio (z3-new + cvc5)."""
    fast_ms = 1500
    pinned = None
    slow_s = 400
    log = []

    def get_model(self):
        return self.pinned if self.pinned is not None else self.solver.model()

    def check(self, *extra):
        import time
        self.pinned = None
        self.solver.set("timeout", self.fast_ms)
        t = time.time()
        r = str(self.solver.check(*extra))
        self.qtime += time.time() - t
        self.queries += 1
        if r != 'unknown':
            return r
        s = z3.Solver()
        s.add(self.solver.assertions())
        for e in extra:
            s.add(e)
        text = s.to_smt2().replace('(check-sat)', '')
        names = [n for n, v in self.inputs.items()] + list(self.aux)
        verdict, vals, who, secs = smt.portfolio(text, names=names, timeout=self.slow_s, logic='QF_BVFP' if any(z3.is_bv(v) for v in self.inputs.values()) else 'QF_FP')
        self.qtime += secs
        FCtx.log.append(dict(verdict=verdict, solver=who, seconds=secs))
        if verdict == 'unsat':
            return 'unsat'
        if verdict == 'sat':
            pairs = []
            for n, v in list(self.inputs.items()) + list(self.aux.items()):
                if n in vals and z3.is_bv(v):
                    tok = vals[n]
                    try:
                        num = int(tok[2:], 2) if tok.startswith('#b') else int(tok[2:], 16)
                    except Exception:
                        continue
                    pairs.append((v, z3.BitVecVal(num, v.size())))
                    continue
                if n in vals and z3.is_fp(v):
                    try:
                        x = smt.fp_to_float(vals[n])
                    except Exception:
                        continue
                    pairs.append((v, z3.fpNaN(F64) if x != x else z3.FPVal(x, F64)))
            self.pinned = PinnedModel(pairs)
            return 'sat'
        return 'unknown'


class PinnedModel:
    """A model given as constant values for the declared constants; evaluation = substitution + constant folding."""
    def __init__(self, pairs):
        self.pairs = pairs

    def eval(self, e, model_completion=True):
        return z3.simplify(z3.substitute(e, *self.pairs)) if self.pairs else z3.simplify(e)
