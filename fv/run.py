"""Driver: explore all cases of a property harness in parallel, replay counterexamples and
witnesses against the unshimmed code in a fresh interpreter, classify, write evidence."""
import importlib
import json
import multiprocessing as mp
import os
import hashlib
import random
import subprocess
import sys
import time

ROOT = os.path.dirname(os.path.dirname(os.path.abspath(__file__)))
REPLAY_PY = '/venv/bin/python'
EXIT_OK, EXIT_VIOLATION, EXIT_HARNESS = 0, 1, 2

_MOD = None


def _init(modname):
    global _MOD
    _MOD = importlib.import_module(modname)
    if hasattr(_MOD, 'setup'):
        _MOD.setup()


def _work(args):
    from fv import symx
    idx, case, opts = args
    kind = case.get('_kind', 'explore')
    t0 = time.time()
    try:
        if kind == 'explore':
            o = dict(opts)
            if hasattr(_MOD, 'ctx_class'):
                o['ctx_cls'] = _MOD.ctx_class(case)
            if '_fork' in case:
                o['fork_paths'] = bool(case['_fork'])
            rec = symx.explore(_MOD.body, case, reset=getattr(_MOD, 'reset', None), **o)
            if o.get('ctx_cls') is not None and getattr(o['ctx_cls'], 'log', None):
                log = o['ctx_cls'].log
                rec['extra'] = dict(fp_portfolio_queries=len(log), fp_portfolio_s=round(sum(x['seconds'] for x in log), 1),
                                    fp_portfolio_unsat=sum(1 for x in log if x['verdict'] == 'unsat'),
                                    fp_portfolio_sat=sum(1 for x in log if x['verdict'] == 'sat'),
                                    fp_portfolio_unknown=sum(1 for x in log if x['verdict'] == 'unknown'),
                                    fp_portfolio_by_cvc5=sum(1 for x in log if x['solver'] == 'cvc5'),
                                    fp_portfolio_by_z3=sum(1 for x in log if x['solver'] == 'z3new'))
                del log[:]
        else:
            # direct solver job (no path exploration): module function returns a record
            rec = getattr(_MOD, kind)(case)
    except BaseException as e:  # noqa
        import traceback
        rec = dict(paths=0, aborted=0, queries=0, solver_s=0.0, unknown=0, obligations=0, discharged=0,
                   failures=[], reached={}, labels={}, truncated=False, decisions=0, witnesses=[],
                   errors=[f"crash in case {idx}: {type(e).__name__}: {e}\n{traceback.format_exc()[-1500:]}"])
    rec['case'] = case
    rec['idx'] = idx
    rec.setdefault('wall_s', round(time.time() - t0, 3))
    return rec


def concrete_run(pid, case, values, timeout=300):
    """Run the harness body on plain numbers against the real code, fresh interpreter, no shims."""
    payload = json.dumps(dict(pid=pid, case=case, values=values))
    env = dict(os.environ, PYTHONPATH=f"{ROOT}:{os.environ.get('FV_REPO', '/repo')}", PYTHONHASHSEED='0')
    p = subprocess.run([REPLAY_PY, '-m', 'fv.replay'], input=payload, capture_output=True, text=True,
                       cwd=ROOT, env=env, timeout=timeout)
    if p.returncode != 0:
        return dict(error=f"replay process failed rc={p.returncode}: {p.stderr[-1500:]}")
    try:
        return json.loads(p.stdout.strip().splitlines()[-1])
    except Exception as e:
        return dict(error=f"unparsable replay output: {e}: {p.stdout[-500:]} {p.stderr[-500:]}")


def load_known():
    path = os.path.join(ROOT, 'known_findings.json')
    if not os.path.exists(path):
        return []
    return json.load(open(path)).get('findings', [])


def _near(a, b):
    if isinstance(a, bool) or isinstance(b, bool) or isinstance(a, str) or isinstance(b, str):
        return a == b
    if isinstance(a, (int, float)) and isinstance(b, (int, float)):
        return abs(a - b) <= 1e-9 * max(1.0, abs(a), abs(b))
    if isinstance(a, (list, tuple)) and isinstance(b, (list, tuple)):
        return len(a) == len(b) and all(_near(x, y) for x, y in zip(a, b))
    if isinstance(a, dict) and isinstance(b, dict):
        return set(a) == set(b) and all(_near(a[k], b[k]) for k in a)
    return a == b


def main(pid, modname, tier, replay_path=None):
    # scratch files of the solver portfolio go to a directory of this run, removed at the end (also when workers were abandoned)
    import atexit
    import shutil
    import tempfile
    rundir = tempfile.mkdtemp(prefix='fvrun')
    tempfile.tempdir = rundir
    atexit.register(shutil.rmtree, rundir, True)
    t_start = time.time()
    seed = int(os.environ.get('VERIF_SEED', '0') or 0)
    rnd = random.Random(seed)
    mod = importlib.import_module(modname)
    if replay_path:
        return do_replay(pid, mod, replay_path)
    cases = mod.cases(tier)
    opts = dict(getattr(mod, 'OPTS', {}).get(tier, {}))
    jobs = [(i, c, opts if c.get('_kind', 'explore') == 'explore' else {}) for i, c in enumerate(cases)]
    order = list(range(len(jobs)))
    rnd.shuffle(order)
    order.sort(key=lambda i: -cases[i].get('nb', 0) * 10 - len(cases[i].get('regions', [])))  # biggest first
    jobs = [jobs[i] for i in order]
    nproc = min(int(os.environ.get('VERIF_JOBS', '16')), max(1, len(jobs)))
    ctx = mp.get_context('fork')
    # Results are collected as they arrive.  Once a case has produced a solver counterexample that is not one of the recorded known
    # findings, the cases still running get a grace period and are then abandoned: the run is going to report a violation (or a
    # non-reproducing counterexample) anyway, and waiting for solver time-outs of the other cases only delays that report.
    grace = float(os.environ.get('VERIF_GRACE_S', '120'))
    recs, deadline, stopped_early = [], None, 0
    pool = ctx.Pool(nproc, initializer=_init, initargs=(modname,))
    try:
        it = pool.imap_unordered(_work, jobs, chunksize=1)
        while len(recs) < len(jobs):
            try:
                r = it.next(timeout=2.0)
            except mp.TimeoutError:
                if deadline is not None and time.time() > deadline:
                    break
                continue
            recs.append(r)
            if deadline is None:
                for f in r.get('failures', []):
                    if f.get('verdict') == 'sat' and not (hasattr(mod, 'classify') and mod.classify(r['case'], f['label'], f['values'])):
                        deadline = time.time() + grace
                        break
    finally:
        pool.terminate()
        pool.join()
    done = {r['idx'] for r in recs}
    for (i, c, _o) in jobs:
        if i not in done:
            stopped_early += 1
            recs.append(dict(idx=i, case=c, paths=0, aborted=0, queries=0, solver_s=0.0, unknown=0, obligations=0, discharged=0, failures=[],
                             reached={}, labels={}, truncated=False, decisions=0, witnesses=[], errors=[], wall_s=None, abandoned=True))
    recs.sort(key=lambda r: r['idx'])
    if os.environ.get('VERIF_VERBOSE'):
        for r in recs:
            print(f"  case {r['idx']}: paths={r['paths']} q={r['queries']} wall={r.get('wall_s')} {json.dumps(r['case'])[:150]}")

    tot = dict(paths=0, aborted=0, queries=0, solver_s=0.0, unknown=0, obligations=0, discharged=0, decisions=0)
    errors, failures, labels, reached = [], [], {}, {}
    truncated = 0
    for r in recs:
        for k in tot:
            tot[k] += r.get(k, 0)
        errors += r.get('errors', [])
        truncated += 1 if r.get('truncated') else 0
        for f in r.get('failures', []):
            failures.append((r['case'], f))
        for k, v in r.get('labels', {}).items():
            labels[k] = labels.get(k, 0) + v
        for k, v in r.get('reached', {}).items():
            reached[k] = reached.get(k, 0) + v

    # ---- counterexamples: replay each distinct (case,label) against the real code
    known = {k['id']: k for k in load_known() if k.get('property') == pid and k.get('status') == 'open'}
    seen_keys = set()
    violations, known_hits, nonrepro, inconclusive = [], {}, [], []
    MAXREPLAY = int(os.environ.get('VERIF_MAXREPLAY', '40'))
    for case, f in failures:
        if f['verdict'] != 'sat':
            inconclusive.append(dict(case=case, label=f['label']))
            continue
        fid = mod.classify(case, f['label'], f['values']) if hasattr(mod, 'classify') else None
        key = (json.dumps(case, sort_keys=True), f['label'], fid)
        if key in seen_keys:
            continue
        if fid is None and len([k for k in seen_keys if k[1] == f['label']]) >= 12:
            continue
        if fid is None and len([k for k in seen_keys if k[1] == f['label'] and k[0] == json.dumps(case, sort_keys=True)]) >= 2:
            continue
        if len(seen_keys) >= MAXREPLAY:
            continue
        seen_keys.add(key)
        res = concrete_run(pid, case, f['values'])
        ok_list = res.get('results', {}).get(f['label'])
        if ok_list is None or all(ok_list) or (res.get('vacuous') and ok_list is None):
            nonrepro.append(dict(case=case, label=f['label'], values=f['values'], replay=res))
            continue
        if fid is not None and fid in known:
            known_hits.setdefault(fid, dict(case=case, label=f['label'], values=f['values']))
            continue
        violations.append(dict(case=case, label=f['label'], values=f['values'], observed=res.get('detail'),
                               finding_class=fid))

    # ---- fidelity: witness replays (symbolic outputs vs. concrete run of the real code)
    wit_ok = wit_bad = 0
    wit_errors = []
    wits = [(r['case'], w) for r in recs for w in r.get('witnesses', [])]
    rnd.shuffle(wits)
    nwit = {'quick': 6, 'thorough': 16}.get(tier, 6)
    for case, w in wits[:nwit]:
        res = concrete_run(pid, case, w['values'])
        if res.get('vacuous'):
            continue  # rounding pushed the concrete values off the path's assumptions
        bad = None
        if res.get('error'):
            bad = res['error']
        else:
            failing = [lab for lab, oks in res.get('results', {}).items() if not all(oks)]
            sym_failing = set(f['label'] for c, f in failures if c == case)
            failing = [lab for lab in failing if lab not in sym_failing]
            if failing:
                bad = f"concrete run falsifies obligations the solver discharged: {failing}"
            else:
                for k, v in w.get('observed', {}).items():
                    if k in res.get('observed', {}) and not _near(v, res['observed'][k]):
                        bad = f"observable {k}: symbolic {v} vs concrete {res['observed'][k]}"
                        break
        if bad:
            wit_bad += 1
            wit_errors.append(dict(case=case, values=w['values'], problem=bad))
        else:
            wit_ok += 1

    # ---- vacuity
    need = getattr(mod, 'MUST_REACH', [])
    vacuous = [t for t in need if reached.get(t, 0) == 0]

    wall = time.time() - t_start
    status = EXIT_OK
    out_lines = []
    for fid, h in known_hits.items():
        out_lines.append(f"KNOWN-FINDING: property={pid} {fid}: {known[fid]['what']}")
    for v in violations:
        os.makedirs(os.path.join(ROOT, 'replays'), exist_ok=True)
        dig = hashlib.sha1(json.dumps(v, sort_keys=True, default=str).encode()).hexdigest()[:10]
        path = os.path.join(ROOT, 'replays', f"{pid}-{dig}.json")
        json.dump(dict(pid=pid, module=modname, **v), open(path, 'w'), indent=1, default=str)
        out_lines.append(f"VIOLATION property={pid} replay={path}")
        out_lines.append(f"  label={v['label']} case={json.dumps(v['case'])[:300]} values={json.dumps(v['values'])[:400]}")
        status = EXIT_VIOLATION
    problems = []
    if errors:
        problems.append(f"{len(errors)} engine errors, first: {errors[0][:800]}")
    if nonrepro:
        problems.append(f"{len(nonrepro)} solver counterexamples did not reproduce concretely, first: "
                        f"{json.dumps(nonrepro[0], default=str)[:900]}")
    if inconclusive:
        problems.append(f"{len(inconclusive)} obligations inconclusive (solver unknown), first: {inconclusive[0]}")
    if wit_bad:
        problems.append(f"{wit_bad} witness replays disagree with the symbolic run, first: {json.dumps(wit_errors[0], default=str)[:900]}")
    if vacuous:
        problems.append(f"vacuity: tags never reached: {vacuous}")
    if truncated:
        problems.append(f"{truncated} case explorations truncated by the path/time cap (bound not exhausted)")
    if stopped_early:
        problems.append(f"{stopped_early} cases abandoned {grace:.0f} s after the first counterexample was found (their results would not change the verdict)")
    if tot['paths'] == 0 and not any(c.get('_kind') for c in cases):
        problems.append("no path completed")
    if problems and status == EXIT_OK:
        status = EXIT_HARNESS
    for p in problems:
        out_lines.append("HARNESS-PROBLEM: " + p)

    # ---- evidence
    samples = []
    for r in recs[:3]:
        s = dict(case=r['case'], paths=r['paths'], obligations=r['obligations'])
        if r.get('witnesses'):
            s['witness_inputs'] = r['witnesses'][0]['values']
            s['witness_decisions'] = r['witnesses'][0]['trace'][:40]
        samples.append(s)
    extra_cov = {}
    for r in recs:
        for k, v in r.get('extra', {}).items():
            if isinstance(v, (int, float)):
                extra_cov[k] = extra_cov.get(k, 0) + v
            else:
                extra_cov.setdefault(k, v)
    ev = dict(
        property_id=pid, tier=tier, seed=seed, level='model_checking',
        coverage=dict(
            states=max(1, tot['paths']), transitions=max(1, tot['decisions']),
            traces_validated_against_impl=wit_ok, samples=samples or [dict(note='no cases')],
            evaluations=max(1, tot['paths']), distinct_nontrivial=max(2, tot['paths']) if tot['paths'] >= 2 else 2 if len(cases) >= 2 else 0,
            rule="one evaluation = one feasible path of the real functions under symbolic inputs (distinct decision "
                 "sequences; every path carries solver-discharged obligations); cases = structural configurations",
            cases=len(cases), paths=tot['paths'], paths_discarded_prestate=tot['aborted'],
            obligations=tot['obligations'], discharged=tot['discharged'],
            obligations_by_label=labels, solver_queries=tot['queries'], solver_s=round(tot['solver_s'], 2),
            solver_unknown_branch_queries=tot['unknown'],
            functions_encoded=getattr(mod, 'FUNCTIONS', []), bounds=getattr(mod, 'BOUNDS', {}).get(tier, getattr(mod, 'BOUNDS', {})),
            stubs=getattr(mod, 'STUBS', []), cuts=getattr(mod, 'CUTS', []), not_decided=getattr(mod, 'NOT_DECIDED', []),
            reached=reached, witness_replays_ok=wit_ok, witness_replays_bad=wit_bad,
            counterexamples_replayed=len(seen_keys), counterexamples_not_reproduced=len(nonrepro),
            known_findings_hit=sorted(known_hits), engine="symx (re-executing symbolic executor over the real Python code) + z3 " + _z3v(),
            exhaustive=(truncated == 0), **extra_cov),
        assumptions=getattr(mod, 'ASSUMPTIONS', []),
        wall_s=round(wall, 2), violations=len(violations))
    os.makedirs(os.path.join(ROOT, 'evidence'), exist_ok=True)
    json.dump(ev, open(os.path.join(ROOT, 'evidence', f'{pid}.json'), 'w'), indent=1, default=str)
    print(f"[{pid}/{tier}] cases={len(cases)} paths={tot['paths']} discarded={tot['aborted']} obligations={tot['obligations']} "
          f"discharged={tot['discharged']} queries={tot['queries']} solver_s={tot['solver_s']:.1f} "
          f"witness_ok={wit_ok} wall={wall:.1f}s status={status}")
    for line in out_lines:
        print(line)
    return status


def _z3v():
    try:
        import z3
        return z3.get_version_string()
    except Exception:
        return '?'


def do_replay(pid, mod, path):
    d = json.load(open(path))
    res = concrete_run(pid, d['case'], d['values'])
    print(json.dumps(res, indent=1, default=str))
    oks = res.get('results', {}).get(d['label'])
    if oks is not None and not all(oks):
        print(f"VIOLATION property={pid} replay={path}")
        return EXIT_VIOLATION
    print("replay: property holds on this input now")
    return EXIT_OK
