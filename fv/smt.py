"""Subprocess solver portfolio for slow (FP / nonlinear) queries: z3-new CLI and the cvc5 binary in parallel,
hard wall-clock kill; any `(error` line or timeout is inconclusive."""
import os
import re
import shutil
import struct
import subprocess
import tempfile
import time


def _run(cmd, timeout):
    t = time.time()
    try:
        p = subprocess.Popen(cmd, stdout=subprocess.PIPE, stderr=subprocess.DEVNULL, text=True)
    except OSError as e:
        return None
    return p


SOLVERS = {
    'z3new': lambda f, t: ['z3-new', f'-T:{int(t)}', f],
    'cvc5': lambda f, t: ['cvc5', '--fp-exp', f'--tlimit={int(t * 1000)}', '--produce-models', f],
    'z3old': lambda f, t: ['z3', f'-T:{int(t)}', f],
}


def portfolio(smt2, names=(), timeout=120, solvers=('z3new', 'cvc5'), logic=None):
    """smt2: assertions (declarations included, no check-sat).  names: constants whose values to fetch.
    returns (verdict, values{name: smtlib value string}, solver_name, seconds)"""
    d = tempfile.mkdtemp(prefix='fvsmt')
    try:
        path = os.path.join(d, 'q.smt2')
        body = smt2 + "\n(check-sat)\n"
        if names:
            body += "(get-value (" + " ".join(names) + "))\n"
        with open(path, 'w') as f:
            f.write("(set-option :produce-models true)\n" + (f"(set-logic {logic})\n" if logic else "") + body)
        procs = {}
        for s in solvers:
            if shutil.which(SOLVERS[s](path, timeout)[0]):
                p = _run(SOLVERS[s](path, timeout), timeout)
                if p is not None:
                    procs[s] = p
        t0 = time.time()
        verdict, out_text, who = 'unknown', '', None
        while procs and time.time() - t0 < timeout + 5:
            for s, p in list(procs.items()):
                rc = p.poll()
                if rc is None:
                    continue
                txt = p.stdout.read()
                del procs[s]
                lines = [l.strip() for l in txt.strip().splitlines() if l.strip() in ('sat', 'unsat', 'unknown')]
                first = lines[0] if lines else ''
                if first in ('sat', 'unsat'):
                    txt = txt[txt.index(first):]
                if '(error' in txt and first not in ('sat', 'unsat'):
                    continue
                if first in ('sat', 'unsat') and '(error' not in txt.split('\n', 1)[0]:
                    if first == 'sat' and names and '(error' in txt:
                        continue
                    verdict, out_text, who = first, txt, s
                    break
            if who:
                break
            time.sleep(0.05)
        for p in procs.values():
            try:
                p.kill()
            except Exception:
                pass
        vals = {}
        if verdict == 'sat' and names:
            vals = parse_values(out_text)
        return verdict, vals, who, round(time.time() - t0, 2)
    finally:
        shutil.rmtree(d, ignore_errors=True)


def parse_values(txt):
    """parse `((a val) (b val) ...)` where val may be (fp #b.. #b.. #b..), (_ +zero 11 53), numerals, (- x), (/ a b)"""
    txt = txt.split('\n', 1)[1] if '\n' in txt else ''
    toks = re.findall(r'\(|\)|[^\s()]+', txt)
    pos = 0

    def parse():
        nonlocal pos
        t = toks[pos]
        pos += 1
        if t == '(':
            lst = []
            while toks[pos] != ')':
                lst.append(parse())
            pos += 1
            return lst
        return t
    try:
        tree = parse()
    except IndexError:
        return {}
    out = {}
    for item in tree:
        if isinstance(item, list) and len(item) == 2 and isinstance(item[0], str):
            out[item[0]] = item[1]
    return out


def fp_to_float(v):
    """SMT-LIB Float64 value (parsed tree) -> python float"""
    if isinstance(v, list) and v and v[0] == 'fp':
        def bits(x):
            if x.startswith('#b'):
                return x[2:]
            if x.startswith('#x'):
                return bin(int(x[2:], 16))[2:].zfill(4 * (len(x) - 2))
            raise ValueError(x)
        b = bits(v[1]) + bits(v[2]) + bits(v[3])
        return struct.unpack('>d', int(b, 2).to_bytes(8, 'big'))[0]
    if isinstance(v, list) and v and v[0] == '_':
        kind = v[1]
        return {'+zero': 0.0, '-zero': -0.0, '+oo': float('inf'), '-oo': float('-inf'), 'NaN': float('nan')}[kind]
    raise ValueError(f"not an FP value: {v}")
