"""Independent geometric specification predicates (polymorphic: symbolic or plain numbers).
Nothing here calls FRAME code except to read plain attributes of Rectangle objects."""
from fv.symx import And, Or, Not, Ite, Min, Max, Eq, Le, Lt, Sum, Count, Implies, Iff


def box(cx, cy, w, h):
    """(lx, ly, ux, uy) from centre/size, computed by the spec (not by FRAME)."""
    return (cx - w / 2, cy - h / 2, cx + w / 2, cy + h / 2)


def rbox(r):
    """box of a FRAME Rectangle from its raw attributes"""
    return box(r.center.x, r.center.y, r.shape.w, r.shape.h)


def ovl_len(l1, u1, l2, u2):
    d = Min(u1, u2) - Max(l1, l2)
    return Max(d, 0)


def ovl_area(b1, b2):
    return ovl_len(b1[0], b1[2], b2[0], b2[2]) * ovl_len(b1[1], b1[3], b2[1], b2[3])


def p_in_closed(b, px, py):
    return And(b[0] <= px, px <= b[2], b[1] <= py, py <= b[3])


def p_in_open(b, px, py):
    return And(b[0] < px, px < b[2], b[1] < py, py < b[3])


def box_inside(b, c):
    return And(b[0] >= c[0], b[1] >= c[1], b[2] <= c[2], b[3] <= c[3])


def interiors_meet(b, c):
    return And(Max(b[0], c[0]) < Min(b[2], c[2]), Max(b[1], c[1]) < Min(b[3], c[3]))


def tiling_obligations(I, label, old_boxes, new_boxes, px, py):
    """new boxes tile exactly the region of the old boxes (old ones assumed interior-disjoint):
    for a free point p: strictly inside <=1 new box; in the open interior of an old box => in the closure of a new box;
    strictly inside a new box => in the closure of an old box."""
    I.prove(label + ':no-overlap', Count([p_in_open(b, px, py) for b in new_boxes]) <= 1)
    I.prove(label + ':covers-old', Implies(Or(*[p_in_open(b, px, py) for b in old_boxes]),
                                           Or(*[p_in_closed(b, px, py) for b in new_boxes])))
    I.prove(label + ':within-old', Implies(Or(*[p_in_open(b, px, py) for b in new_boxes]),
                                           Or(*[p_in_closed(b, px, py) for b in old_boxes])))
