"""C14 -- spectral placement keeps every module's disc inside the die."""
import itertools
from fractions import Fraction
from fv import symx, shimall
from fv.symx import And, Or, Not, Eq, Implies, Iff, Abs, Le
from frame.geometry.geometry import Point, Shape, Rectangle
import tools.spectral.spectral_algorithm as SA
import tools.spectral.spectral as SP
from tools.spectral.spectral_types import AdjEdge

PID = 'C14'
FUNCTIONS = ['normalize', 'spectral_layout_die (orthogonalize / calculate_centroids / abs_norm_dot_product / wirelength replaced '
             'by arbitrary-value stubs)', 'Spectral.__init__', 'Spectral._build_graph', 'Spectral.spectral_layout',
             'Module.recenter_rectangles', 'Netlist.__init__']
BOUNDS = {'quick': 'lemma N: n<=3 entries (all reals, spans>0, fixed flags enumerated); loop: 3 nodes, one and two dimensions, '
                   '<=1 iteration per dimension from arbitrary intermediate vectors; wrap-up: 5 modules (3 soft, 1 hard, 1 fixed), '
                   'trial counts 0..3, die and areas symbolic',
          'thorough': 'lemma N n<=4; wrap-up with a two-rectangle hard module'}
STUBS = ['loop harness: normalize replaced by its contract (lemma N, proved on the real normalize by the normalize cases)', 'orthogonalize/calculate_centroids: leave arbitrary real vectors (fixed entries kept by the real code around them)',
         'abs_norm_dot_product / wirelength: arbitrary real', 'random.uniform(a,b): arbitrary value in [a,b]',
         'wrap-up: spectral_layout_die returns arbitrary coordinates satisfying the postcondition proved by the loop harness']
ASSUMPTIONS = ['R model', 'every disc fits in the die (span > 0)',
               'the claim is lemma N: entries with |x| <= 1e-9 before the final scaling are outside (the code skips them when choosing the scale)']
NOT_DECIDED = ['convergence / the 10000-iteration cap', 'entries <= 1e-9 before scaling; all-zero vectors (min of an empty sequence)',
               'actual Mersenne-Twister seeds', 'rounding']
MUST_REACH = ['normalize', 'loop', 'wrapup']
TINY = 10e-10


def setup():
    shimall.install_frame()
    symx.install(SA)
    symx.install(SP)


def reset():
    symx.ALLOW_STR = True
    shimall.reset_epsilon()


def cases(tier):
    cs = []
    for n in ((1, 2, 3) if tier == 'quick' else (1, 2, 3, 4)):
        for fixed in itertools.product([0, 1], repeat=n):
            cs.append(dict(kind='normalize', n=n, fixed=list(fixed)))
    for dims in (1, 2):
        for iters in (0, 1):
            if dims == 2 and iters > 0:
                continue
            for fixed, unk in (([0, 0, 0], [0, 0, 0]), ([0, 0, 0], [1, 1, 1]), ([1, 0, 0], [0, 1, 0]), ([1, 0, 1], [0, 0, 0])):
                cs.append(dict(kind='loop', dims=dims, iters=iters, fixed=fixed, unk=unk))
    for trials in (0, 1, 2, 3):
        cs.append(dict(kind='wrapup', trials=trials, hard2=False))
    cs.append(dict(kind='wrapup', trials=1, hard2=True))   # a movable hard module of two rectangles with different areas
    cs.append(dict(kind='wrapup', trials=1, hard2=False, pads=True))   # plus movable terminals: a bare point and a pad with a footprint
    cs.append(dict(kind='wrapup', trials=1, hard2=False, softrect=True))   # a soft module with a (small) rectangle
    if tier == 'thorough':
        cs.append(dict(kind='wrapup', trials=3, hard2=True))
    return cs


OPTS = {'quick': dict(max_paths=40000, budget_s=900), 'thorough': dict(max_paths=400000, budget_s=1500)}


def tiny(I):
    return Fraction(TINY) if I.mode == 'symbolic' else TINY


def body(I, case):
    kind = case['kind']
    if kind == 'normalize':
        return body_normalize(I, case)
    if kind == 'loop':
        return body_loop(I, case)
    return body_wrapup(I, case)


def body_normalize(I, case):
    n = case['n']
    x = [I.real(f'x{i}', -1000, 1000) for i in range(n)]
    span = [I.real(f's{i}', 0, 1000) for i in range(n)]
    for s in span:
        I.assume(s > 0)
    fixed = [bool(f) for f in case['fixed']]
    x0 = list(x)
    eligible = [(not fixed[i]) and None for i in range(n)]
    elig = Or(*[And(Abs(x0[i]) > tiny(I)) for i in range(n) if not fixed[i]])
    try:
        SA.normalize(x, span, fixed)
    except ValueError:
        I.prove('ValueError-only-when-no-entry-eligible', Not(elig))
        return
    except ZeroDivisionError:
        I.prove('no-division-by-zero', False)
        return
    I.reached('normalize')
    I.prove('returns-only-when-some-entry-eligible', elig)
    for i in range(n):
        if fixed[i]:
            I.prove('fixed-entry-unchanged', Eq(x[i], x0[i]))
        else:
            I.prove('eligible-entry-within-span', Implies(Abs(x0[i]) > tiny(I), Abs(x[i]) <= span[i]))
    I.observe('x', list(x))


class Recorder:
    last_in = None


def body_loop(I, case):
    n = 3
    dims = case['dims']
    fixed = [bool(f) for f in case['fixed']]
    size = [I.real(f'size{d}', 4, 100) for d in range(dims)]
    mass = [3.0, 1.0, 2.0]
    adj = [[AdjEdge(1, 1.0), AdjEdge(2, 1.0)], [AdjEdge(0, 1.0), AdjEdge(2, 1.0)], [AdjEdge(0, 1.0), AdjEdge(1, 1.0)]]
    initial = []
    for d in range(dims):
        row = []
        for i in range(n):
            if fixed[i]:
                row.append(I.real(f'init{d}_{i}', 1, 3))
            else:
                row.append(-1.0 if case['unk'][i] else I.real(f'init{d}_{i}', 0, 100))
        initial.append(row)
    import math
    radius = [math.sqrt(m / math.pi) for m in mass]
    init_copy = [list(r) for r in initial]
    counter = dict(it=0, fresh=0)

    def fresh(tag):
        counter['fresh'] += 1
        return I.real(f'{tag}{counter["fresh"]}', -10**6, 10**6)

    def st_orth(coord, fmass, d, is_fixed):
        if counter.get('d') != d:
            counter['d'], counter['it'] = d, 0
        coord[d] = [coord[d][i] if is_fixed[i] else fresh('orth') for i in range(n)]

    def st_cent(adj_, cd, degree):
        return [fresh('cent') for _ in range(n)]

    def st_dot(v1, v2, w):
        counter['it'] += 1
        if counter['it'] > case['iters']:
            return 1.0  # converged: the loop exits
        return fresh('dot')

    pres = []

    def st_norm(x, span, is_fixed):
        """contract of normalize (lemma N, proved on the real function by the 'normalize' cases)"""
        xin = list(x)
        pres.append((xin, list(span)))
        elig = [(not is_fixed[i]) and Abs(xin[i]) > tiny(I) for i in range(len(x))]
        if not symx.is_sym(*elig):
            some = any(elig)
        else:
            some = bool(Or(*elig))
        if not some:
            raise ValueError("min() arg is an empty sequence")
        for i in range(len(x)):
            if not is_fixed[i]:
                v = fresh('norm')
                I.assume(Implies(Abs(xin[i]) > tiny(I), And(v <= span[i], -v <= span[i])))
                x[i] = v

    class FakeRandom:
        @staticmethod
        def uniform(a, b):
            v = fresh('rnd')
            I.assume(And(v >= a, v <= b))
            return v
    saved = (SA.orthogonalize, SA.calculate_centroids, SA.abs_norm_dot_product, SA.normalize, SA.random, SA.wirelength)
    SA.orthogonalize, SA.calculate_centroids, SA.abs_norm_dot_product = st_orth, st_cent, st_dot
    SA.random = FakeRandom
    SA.wirelength = lambda a, c: 0.0
    SA.normalize = st_norm
    try:
        try:
            coord, wl, iters = SA.spectral_layout_die(adj, mass, list(size), initial, fixed)
        except ValueError:
            I.discard('all entries below 1e-9 (outside the claim)')
        except AssertionError:
            I.discard('fixed node without coordinates')
    finally:
        SA.orthogonalize, SA.calculate_centroids, SA.abs_norm_dot_product, SA.normalize, SA.random, SA.wirelength = saved
    I.reached('loop')
    # the last normalize call of dimension d is call index: sum over previous dims (1+iters_k) + iters_d
    idx = -1
    for d in range(dims):
        idx += 1 + iters[d]
        xin, span = pres[idx]
        for i in range(n):
            if fixed[i]:
                I.prove('fixed-node-keeps-its-coordinate', Eq(coord[d][i], init_copy[d][i] - size[d] / 2))
            else:
                bound = size[d] / 2 - radius[i]
                I.prove('movable-node-disc-inside-die', Implies(Abs(xin[i]) > tiny(I), Abs(coord[d][i]) <= bound))


NORMALIZE = SA.normalize


def body_wrapup(I, case):
    _prove = I.prove

    def prove(label, cond, **kw):
        kw.setdefault('side', True)   # the radius is a sqrt symbol: counterexamples must respect its definition
        return _prove(label, cond, **kw)
    W, H = I.real('W', 10, 100), I.real('H', 10, 100)
    areas = [I.real(f'a{i}', 0.01, 9) for i in range(3)]
    hx, hy = I.real('hx', 0, 100), I.real('hy', 0, 100)
    fx, fy = I.real('fx', 1, 9), I.real('fy', 1, 9)
    mods = {}
    for i in range(3):
        mods[f'S{i}'] = {'area': areas[i], 'center': [I.real(f'cx{i}', 0, 100), I.real(f'cy{i}', 0, 100)]}
    if case.get('softrect'):   # a soft module that carries a rectangle smaller than its declared area (its disc is that of the AREA)
        mods['S2'] = {'area': areas[2], 'rectangles': [[I.real('cx2', 0, 100), I.real('cy2', 0, 100), 0.1, 0.1]]}
    hard_rects = [[hx, hy, 2.0, 1.0]]
    if case['hard2']:
        hard_rects.append([hx, hy + 1.0, 1.0, 1.0])
    mods['HM'] = {'hard': True, 'rectangles': hard_rects}
    mods['FX'] = {'fixed': True, 'rectangles': [[fx, fy, 1.0, 2.0]]}
    tx, ty = I.real('tx', 0, 9), I.real('ty', 0, 9)
    mods['PIN'] = {'terminal': True, 'fixed': True, 'center': [tx, ty]}   # a fixed I/O pin
    w3 = I.real('w3', 0.1, 10)
    nets = [['S0', 'S1', 'HM', w3], ['S2', 'FX', 2.0], ['S1', 'S2'], ['PIN', 'S0'], ['S0', 'S1', 'S2', 'HM']]
    # the nets as the document states them (the placer's own constructor must not change them either)
    nets_doc = [(['S0', 'S1', 'HM'], w3), (['S2', 'FX'], 2.0), (['S1', 'S2'], 1), (['PIN', 'S0'], 1), (['S0', 'S1', 'S2', 'HM'], 1)]
    if case.get('pads'):   # movable terminals: a bare one (a point) and a pad with a footprint
        mods['Q'] = {'terminal': True}
        qx, qy = I.real('qx', 0, 100), I.real('qy', 0, 100)
        mods['PAD'] = {'terminal': True, 'center': [qx, qy], 'rectangles': [[qx, qy, 1.0, 0.5]]}
        nets += [['Q', 'S1'], ['PAD', 'S2']]
        nets_doc += [(['Q', 'S1'], 1), (['PAD', 'S2'], 1)]
    tree = {'Modules': mods, 'Nets': nets}
    net = SP.Spectral(tree)
    names = [m.name for m in net.modules]
    before = {m.name: dict(area=m.area(), rects=[(r.center.x, r.center.y, r.shape.w, r.shape.h) for r in m.rectangles],
                           center=(m.center.x, m.center.y) if m.center is not None else None) for m in net.modules}
    nets_before = [([m.name for m in e.modules], e.weight) for e in net.edges]
    calls = []

    def st_layout(adj, mass, size, initial, fixed):
        k = len(calls)
        n = len(mass)
        coord = [[None] * n for _ in range(2)]
        for d in range(2):
            for i in range(n):
                if fixed[i]:
                    coord[d][i] = initial[d][i] - size[d] / 2
                else:
                    v = I.real(f'out{k}_{d}_{i}', -200, 200)
                    r = symx.sym_sqrt(mass[i] / SP.math.pi) if I.mode == 'symbolic' else (mass[i] / __import__('math').pi) ** 0.5
                    I.assume(And(v <= size[d] / 2 - r, -v <= size[d] / 2 - r))
                    coord[d][i] = v
        calls.append((list(initial[0]), list(initial[1]), list(fixed)))
        return coord, I.real(f'wl{k}', 0, 10**6), [1, 1]
    saved = SP.spectral_layout_die
    SP.spectral_layout_die = st_layout  # environment stub in both modes: replays pin the placement to the model's values
    try:
        st = net.spectral_layout(Shape(W, H), case['trials'], False)
    except ZeroDivisionError as e:
        I.detail = f'raised ZeroDivisionError: {e}'
        prove('spectral-layout-succeeds', False)
        return
    finally:
        SP.spectral_layout_die = saved
    I.reached('wrapup')
    prove('number-of-trials', len(calls) == max(1, case['trials']))
    import math
    for m in net.modules:
        b = before[m.name]
        prove('areas-unchanged', Eq(m.area(), b['area']))
        if m.is_fixed:
            prove('fixed-module-untouched', And(*[And(Eq(r.center.x, q[0]), Eq(r.center.y, q[1]), Eq(r.shape.w, q[2]), Eq(r.shape.h, q[3]))
                                                    for r, q in zip(m.rectangles, b['rects'])]))
            if m.is_terminal:  # a fixed pin keeps its place
                prove('fixed-terminal-stays', m.center is not None and And(Eq(m.center.x, b['center'][0]), Eq(m.center.y, b['center'][1])))
            continue
        if m.is_hard and m.rectangles:
            # rigid translation: shapes and pairwise offsets unchanged; position = centroid of the rectangles
            r0, q0 = m.rectangles[0], b['rects'][0]
            prove('hard-module-moved-rigidly', And(*[And(Eq(r.shape.w, q[2]), Eq(r.shape.h, q[3]), Eq(r.center.x - r0.center.x, q[0] - q0[0]),
                                                           Eq(r.center.y - r0.center.y, q[1] - q0[1])) for r, q in zip(m.rectangles, b['rects'])]))
            ta = sum(r.area for r in m.rectangles)
            cx = sum(r.center.x * r.area for r in m.rectangles) / ta
            cy = sum(r.center.y * r.area for r in m.rectangles) / ta
            if m.is_terminal:   # a pad keeps its centre: it must be where its footprint is
                prove('terminal-centre-matches-footprint', m.center is not None and And(Eq(m.center.x, cx), Eq(m.center.y, cy)))
        else:
            cx, cy = m.center.x, m.center.y
        rad = symx.sym_sqrt(b['area'] / SP.math.pi) if I.mode == 'symbolic' else math.sqrt(b['area'] / math.pi)
        prove('movable-disc-inside-die', And(cx - rad >= 0, cx + rad <= W, cy - rad >= 0, cy + rad <= H) if I.mode == 'symbolic'
                else (cx - rad >= -1e-9 and cx + rad <= W + 1e-9 and cy - rad >= -1e-9 and cy + rad <= H + 1e-9), side=True)
    prove('nets-unchanged', len(net.edges) == len(nets_doc) and And(*[And([m.name for m in e.modules] == nd[0], Eq(e.weight, nd[1]))
                                                                        for e, nd in zip(net.edges, nets_doc)]))
    prove('modules-unchanged', [m.name for m in net.modules] == names)
