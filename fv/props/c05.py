"""C05 -- loaded netlist matches its definition; ill-formed designs are rejected."""
import copy
from fv import symx, shimall
from fv.symx import And, Or, Not, Eq, Implies
from fv.props import net_common as NC
from frame.netlist.netlist import Netlist

PID = 'C05'
FUNCTIONS = ['Netlist.__init__', 'parse_yaml_netlist/modules/module/center/aspect_ratio/rectangles/edges', 'parse_yaml_rectangle',
             'Rectangle.__init__', 'Module.__init__', 'Module.setup', 'Module._read_region_area', 'Module.area', 'Module.area_rectangles',
             'Module.calculate_center_from_rectangles', 'Netlist._create_rectangles', 'Netlist.rectangles', 'Netlist.fixed_rectangles',
             'HyperEdge.wire_length', 'Netlist.wire_length', 'Point arithmetic']
BOUNDS = {'quick': 'the 6 document structures of C04 (all numbers symbolic); for each of 20 defect classes, the defect injected at every '
                   'position of every structure where it applies',
          'thorough': '10 structures'}
ASSUMPTIONS = ['R model; one axis of rectangles symbolic', 'overlapping hard rectangles overlap by a clear margin (>= 0.05 x 1)']
NOT_DECIDED = ['overlaps below the area tolerance at scales >= 1e-4 (at smaller scales: known finding C05-area-tolerance-small-scale)', 'text-level YAML errors']
MUST_REACH = ['well-formed', 'defect-rejected']
DEFECTS = ['hard-overlap-first-last', 'hard-overlap-last-two', 'hard-overlap-two-branches', 'hard-overlap-two-branches-trunk-middle', 'unknown-module-in-net', 'weight-zero', 'weight-negative', 'area-zero', 'area-negative', 'soft-without-area',
           'hard-with-area', 'hard-without-rectangles', 'hard-overlapping-rectangles', 'unknown-attribute', 'invalid-name',
           'one-pin-net', 'one-pin-net-weighted', 'rect-width-zero', 'rect-height-negative', 'region-area-zero']


def setup():
    shimall.install_frame()


def reset():
    symx.ALLOW_STR = True
    shimall.reset_epsilon()


def cases(tier):
    cs = []
    for s in NC.structs(tier):
        cs.append(dict(kind='good', struct=s))
        for d in DEFECTS:
            for pos in range(3):
                cs.append(dict(kind='bad', struct=s, defect=d, pos=pos))
    # a hard module of two w x w rectangles overlapping by a symbolic fraction in [1/4, 3/4] of their area, w = 2 * scale, loaded
    # with the design's OWN tolerances (nothing inherited)
    for scale in (1.0, 1e-2, 1e-4, 1e-5, 1e-6):
        cs.append(dict(kind='small', scale=scale))
    return cs


def classify(case, label, values):
    """the recorded finding: the overlap area is below the library's own area tolerance sqrt(1e-12 * smallest side), which at small
    scales exceeds a quarter of the rectangles' area; an accepted overlap ABOVE that tolerance is a new violation"""
    if case.get('kind') == 'small' and label == 'ill-formed-design-rejected:hard-overlap-small-scale' and values and 'ov' in values:
        from fractions import Fraction
        w = 2 * case['scale']
        ov = float(Fraction(values['ov'])) if isinstance(values['ov'], str) else float(values['ov'])
        if case['scale'] <= 1e-4 and ov * w * w <= (1e-12 * w) ** 0.5 * (1 + 1e-9):
            return 'C05-area-tolerance-small-scale'
    return None


def body_small(I, case):
    from frame.geometry.geometry import Rectangle
    Rectangle.undefine_epsilon()
    w = 2 * case['scale']
    ov = I.real('ov', 0.25, 0.75)
    doc = {'Modules': {'H': {'hard': True, 'rectangles': [[w / 2, w / 2, w, w], [w / 2 + (1 - ov) * w, w / 2, w, w]]}}}
    try:
        n = Netlist(doc if I.mode == 'symbolic' else to_text(doc))
    except AssertionError:
        I.reached('defect-rejected')
        return
    I.detail = f"loaded with area {n.modules[0].area()}"
    tol = (1e-12 * w) ** 0.5   # the library's own area tolerance for this design
    from fractions import Fraction
    # (a) accepted although the overlap exceeds even the library's own tolerance: never excused
    I.prove('ill-formed-design-rejected:hard-overlap-above-own-tolerance', ov * w * w <= (Fraction(tol) if I.mode == 'symbolic' else tol) * (1 + 1e-9))
    # (b) accepted at all: the property's clause (the recorded finding at small scales)
    I.prove('ill-formed-design-rejected:hard-overlap-small-scale', False)


def inject(I, tree, specs, defect, pos):
    """returns True if the defect could be injected at the pos-th applicable position"""
    mods = tree['Modules']
    names = list(mods)
    nets = tree.get('Nets', [])
    for mname in names:
        rl = mods[mname].get('rectangles')
        if rl is not None and not isinstance(rl[0], list):
            mods[mname]['rectangles'] = [rl]

    def nth(cands):
        return cands[pos] if pos < len(cands) else None
    if defect == 'unknown-module-in-net':
        e = nth(nets)
        if e is None:
            return False
        e[0] = 'Nobody'
    elif defect in ('weight-zero', 'weight-negative'):
        e = nth(nets)
        if e is None:
            return False
        if not isinstance(e[-1], str):
            e.pop()
        e.append(0 if defect == 'weight-zero' else -I.real('neg', 0.001, 10))
    elif defect in ('area-zero', 'area-negative'):
        m = nth([n for n in names if 'area' in mods[n] and not isinstance(mods[n]['area'], dict)])
        if m is None:
            return False
        mods[m]['area'] = 0 if defect == 'area-zero' else -I.real('neg', 0.001, 10)
    elif defect == 'region-area-zero':
        m = nth([n for n in names if isinstance(mods[n].get('area'), dict)])
        if m is None:
            return False
        k = list(mods[m]['area'])[-1]
        mods[m]['area'][k] = 0.0
    elif defect == 'soft-without-area':
        m = nth([n for n in names if 'area' in mods[n]])
        if m is None:
            return False
        del mods[m]['area']
    elif defect == 'hard-with-area':
        m = nth([n for n in names if mods[n].get('hard') or mods[n].get('fixed')])
        if m is None:
            return False
        mods[m]['area'] = I.real('extra_area', 0.01, 10)
    elif defect == 'hard-without-rectangles':
        m = nth([n for n in names if (mods[n].get('hard') or mods[n].get('fixed')) and 'rectangles' in mods[n] and not mods[n].get('terminal')])
        if m is None:
            return False
        del mods[m]['rectangles']
    elif defect == 'hard-overlapping-rectangles':
        m = nth([n for n in names if (mods[n].get('hard') or mods[n].get('fixed')) and 'rectangles' in mods[n] and not mods[n].get('terminal')])
        if m is None:
            return False
        r = mods[m]['rectangles'][0]
        ov = I.real('ov', 0.05, 0.09)
        # a second rectangle overlapping the first one by a strip of width ov and height >= 1 (first rect width >= 0.1)
        mods[m]['rectangles'] = [r, [r[0] + r[2] / 2 - ov + 0.5, r[1], 1.0, r[3]]]
    elif defect in ('hard-overlap-first-last', 'hard-overlap-last-two'):
        # three rectangles; the overlapping pair is (first, last) resp. (second, third), the remaining one is far away
        m = nth([n for n in names if (mods[n].get('hard') or mods[n].get('fixed')) and 'rectangles' in mods[n] and not mods[n].get('terminal')])
        if m is None:
            return False
        r = mods[m]['rectangles'][0]
        ov = I.real('ov', 0.05, 0.09)
        over = [r[0] + r[2] / 2 - ov + 0.5, r[1], 1.0, r[3]]
        far = [r[0], r[1] + 20.0, r[2], r[3]]
        mods[m]['rectangles'] = [r, far, over] if defect == 'hard-overlap-first-last' else [far, r, over]
    elif defect in ('hard-overlap-two-branches', 'hard-overlap-two-branches-trunk-middle'):
        # a trunk with two branches on its north side, each abutting the trunk within its span (a single-trunk orthogon as far as
        # the trunk is concerned) but overlapping EACH OTHER by a quarter of the trunk's width
        m = nth([n for n in names if (mods[n].get('hard') or mods[n].get('fixed')) and 'rectangles' in mods[n] and not mods[n].get('terminal')])
        if m is None:
            return False
        r = mods[m]['rectangles'][0]
        b1 = [r[0] - r[2] / 4, r[1] + r[3] / 2 + 0.5, r[2] / 2, 1.0]
        b2 = [r[0], r[1] + r[3] / 2 + 0.5, r[2] / 2, 1.0]
        mods[m]['rectangles'] = [r, b1, b2] if defect == 'hard-overlap-two-branches' else [b1, r, b2]
    elif defect == 'unknown-attribute':
        m = nth(names)
        if m is None:
            return False
        mods[m]['colour'] = 'red'
    elif defect == 'invalid-name':
        m = nth(names)
        if m is None:
            return False
        new = {}
        for k, v in mods.items():
            new['9' + k if k == m else k] = v
        tree['Modules'] = new
        for e in nets:
            for i, x in enumerate(e):
                if x == m:
                    e[i] = '9' + m
    elif defect in ('one-pin-net', 'one-pin-net-weighted'):
        e = nth(nets)
        if e is None:
            return False
        w = e[-1] if not isinstance(e[-1], str) else None
        del e[1:]
        if defect == 'one-pin-net-weighted':
            e.append(w if w is not None else 2.0)
    elif defect in ('rect-width-zero', 'rect-height-negative'):
        m = nth([n for n in names if 'rectangles' in mods[n]])
        if m is None:
            return False
        r = mods[m]['rectangles'][-1]
        if defect == 'rect-width-zero':
            r[2] = 0.0
        else:
            r[3] = -1.0
    else:
        raise AssertionError(defect)
    return True


def body(I, case):
    if case['kind'] == 'small':
        return body_small(I, case)
    tree, specs, nspecs = NC.build_doc(I, case['struct'])
    if case['kind'] == 'bad':
        if not inject(I, tree, specs, case['defect'], case['pos']):
            I.reached('defect-not-applicable')
            return
        try:
            n = Netlist(tree if I.mode == 'symbolic' else to_text(tree))
        except (AssertionError, KeyError, TypeError, ValueError, IndexError, ZeroDivisionError):
            I.reached('defect-rejected')
            return
        I.detail = f"loaded: {[m.name for m in n.modules]} {n.edges}"
        I.prove('ill-formed-design-rejected:' + case['defect'], False)
        return
    try:
        n = Netlist(tree if I.mode == 'symbolic' else to_text(tree))
    except AssertionError as e:
        I.detail = f"rejected: {e}"
        I.prove('well-formed-design-accepted', False)
        return
    I.reached('well-formed')
    I.prove('modules-in-order', [m.name for m in n.modules] == [s['name'] for s in specs])
    allr, fixedr = [], []
    for m, s in zip(n.modules, specs):
        ra = [r[2] * r[3] for r in s['rects']]
        if s['terminal']:
            want = sum(ra, 0)   # zero for a terminal proper; a pad with a footprint follows the hard-module rule
        elif s['hard']:
            want = sum(ra, 0)
        else:
            want = sum(s['areas'].values(), 0)
        I.prove('module-area', Eq(m.area(), want))
        I.prove('area-of-rectangles', Eq(m.area_rectangles, sum(ra, 0)))
        if s['areas'] is not None and not s['hard']:
            I.prove('per-region-areas', sorted(m.area_regions) == sorted(s['areas']) and
                    And(*[Eq(m.area(k), v) for k, v in s['areas'].items()]) and Eq(m.area('nonexistent'), 0))
        if s['rects']:
            tot = sum(ra, 0)
            I.prove('centre-is-area-weighted-centroid', And(Eq(m.center.x * tot, sum([a * r[0] for a, r in zip(ra, s['rects'])], 0)),
                                                            Eq(m.center.y * tot, sum([a * r[1] for a, r in zip(ra, s['rects'])], 0))))
        elif s['center'] is not None:
            I.prove('centre-as-given', And(Eq(m.center.x, s['center'][0]), Eq(m.center.y, s['center'][1])))
        else:
            I.prove('no-centre', m.center is None)
        I.prove('kinds', (m.is_soft, m.is_hard, m.is_fixed, m.is_terminal, m.flip) == (s['soft'], s['hard'], s['fixed'], s['terminal'], s['flip']))
        # rectangles of the module: the same set as in the document (the loader may reorder them: trunk first)
        I.prove('rectangles-as-written', len(m.rectangles) == len(s['rects']) and And(*[
            Or(*[And(Eq(r.center.x, q[0]), Eq(r.center.y, q[1]), Eq(r.shape.w, q[2]), Eq(r.shape.h, q[3]), r.region == q[4])
                 for r in m.rectangles]) for q in s['rects']]))
        I.prove('rectangle-flags-follow-the-module', all(r.fixed == s['fixed'] and r.hard == s['hard'] for r in m.rectangles))
        allr += list(m.rectangles)
        if s['fixed']:
            fixedr += list(m.rectangles)
    # the same rectangle objects, module by module (the order inside a module is the loader's business: the trunk is moved first)
    def same_objects(xs, ys):
        return len(xs) == len(ys) and sorted(map(id, xs)) == sorted(map(id, ys))

    def module_of(r):
        return [i for i, m in enumerate(n.modules) if any(r is q for q in m.rectangles)][0]
    I.prove('all-rectangles-list', same_objects(n.rectangles, allr) and n.num_rectangles == len(allr) and
            [module_of(r) for r in n.rectangles] == sorted(module_of(r) for r in n.rectangles))
    fr = n.fixed_rectangles()
    I.prove('fixed-rectangles-list', same_objects(fr, fixedr) and all(r.fixed for r in fr) and
            all(not r.fixed for r in allr if not any(r is f for f in fixedr)))
    # wire length: per net weight * sum of distances to the mean of the member centres
    have_centres = all(m.center is not None for e in n.edges for m in e.modules)
    I.prove('nets-as-written', len(n.edges) == len(nspecs) and And(*[And([m.name for m in e.modules] == s['members'], Eq(e.weight, s['weight']))
                                                                     for e, s in zip(n.edges, nspecs)]))
    if have_centres and n.edges:
        total = 0
        for e in n.edges:
            k = len(e.modules)
            mx = sum([m.center.x for m in e.modules], 0) / k
            my = sum([m.center.y for m in e.modules], 0) / k
            dsum = 0
            for m in e.modules:
                dx, dy = mx - m.center.x, my - m.center.y
                dsum = dsum + (symx.sym_sqrt(dx * dx + dy * dy) if I.mode == 'symbolic' else (dx * dx + dy * dy) ** 0.5)
            total = total + e.weight * dsum
        I.prove('wire-length', Eq(n.wire_length, total), side=True)


def to_text(tree):
    from frame.utils.utils import write_yaml
    return write_yaml(tree)
