"""C15 -- grid orthogon decomposition finds exactly the single-trunk decompositions."""
import itertools
from fv import symx, shimall
from fv.symx import And, Or, Not, Eq, Implies, Iff, Sum
from fv import geo
from frame.geometry import geometry as G
from frame.geometry.geometry import Rectangle, Point, Shape, create_stog
from frame.netlist.module import Module
import tools.floorset_parser.floor_set_manager.strop as ST
import tools.floorset_parser.floor_set_manager.utils.utils as FU
from tools.floorset_parser.floor_set_manager.strop import Strop
from tools.floorset_parser.floor_set_manager.utils.utils import strop_decomposition

PID = 'C15'
FUNCTIONS = ['Strop.__init__', 'Strop._get_potential_trunks', '_get_trunks_matrix', '_row_interval', '_empty_corners',
             'Interval.intersection/length/empty', 'StropRectangle.area', 'StropInstance.__init__', 'StropInstance.rectangles',
             'strop_decomposition', 'is_point_inside_polygon', 'create_stog (on the result)']
BOUNDS = {'quick': 'all 0/1 grids up to 3x3 and 2x4 / 4x2 (every cell a symbolic Boolean; one path per grid); vertex polygons: '
                   '9 shapes x 2 orientations x 2 axes on a 3x3 coordinate grid with symbolic ordered coordinates on one axis',
          'thorough': 'all grids up to 4x4 and 3x5 / 5x3'}
ASSUMPTIONS = ['the constructor inspects every cell, so the paths are exactly the grids: the solver acts as the oracle for the '
               'existential specification and decides every branch; this coincides with exhaustive enumeration inside the bound']
NOT_DECIDED = ['grids beyond the bound (the property\'s "randomly beyond" is sampling, not this technique)', 'numpy vertex arrays']
MUST_REACH = ['strop', 'not-strop', 'polygon-ok', 'polygon-rejected']


def setup():
    shimall.install_frame()
    symx.install(ST)
    symx.install(FU)


def reset():
    symx.ALLOW_STR = True
    shimall.reset_epsilon()


class SymChar:
    """one character of the matrix string: '1' iff bit"""
    def __init__(self, bit):
        self.bit = bit

    def __eq__(self, o):
        if o == '1':
            return self.bit
        if o == '0':
            return symx.Not(self.bit)
        return False

    def __hash__(self):
        return hash('1') if self.bit else hash('0')


class SymRow:
    def __init__(self, bits):
        self.c = [SymChar(b) for b in bits]

    def __len__(self):
        return len(self.c)

    def __getitem__(self, j):
        return self.c[j]


class SymMatrix:
    def __init__(self, rows):
        self.rows = [SymRow(r) for r in rows]

    def split(self):
        return list(self.rows)


def cases(tier):
    shapes = [(1, 1), (1, 2), (2, 1), (1, 3), (3, 1), (2, 2), (2, 3), (3, 2), (3, 3), (2, 4), (4, 2)]
    if tier == 'thorough':
        shapes += [(3, 4), (4, 3), (4, 4), (3, 5), (5, 3)]
    cs = []
    for (r, c) in shapes:
        n = r * c
        k = max(0, n - 9)  # split big grids over workers by fixing the first k cells
        for pre in itertools.product([0, 1], repeat=k):
            cs.append(dict(kind='grid', R=r, C=c, prefix=list(pre)))
    for name in POLYGONS:
        for orient in (0, 1):
            for tr in (0, 1):
                cs.append(dict(kind='poly', name=name, reverse=orient, transposed=tr))
    return cs


OPTS = {'quick': dict(max_paths=5000), 'thorough': dict(max_paths=5000)}


def valid_trunk(m, R, C, r0, r1, c0, c1):
    conds = [m[i][j] for i in range(r0, r1 + 1) for j in range(c0, c1 + 1)]
    for i in range(R):
        for j in range(C):
            if r0 <= i <= r1 and c0 <= j <= c1:
                continue
            alts = []
            if c0 <= j <= c1 and i < r0:
                alts.append(And(*[m[k][j] for k in range(i + 1, r0)]))
            if c0 <= j <= c1 and i > r1:
                alts.append(And(*[m[k][j] for k in range(r1 + 1, i)]))
            if r0 <= i <= r1 and j < c0:
                alts.append(And(*[m[i][k] for k in range(j + 1, c0)]))
            if r0 <= i <= r1 and j > c1:
                alts.append(And(*[m[i][k] for k in range(c1 + 1, j)]))
            conds.append(Implies(m[i][j], Or(*alts) if alts else False))
    return And(*conds)


def body(I, case):
    if case['kind'] == 'poly':
        return body_poly(I, case)
    R, C = case['R'], case['C']
    bits = []
    for i in range(R):
        row = []
        for j in range(C):
            k = i * C + j
            if k < len(case['prefix']):
                row.append(bool(case['prefix'][k]))
            else:
                row.append(I.bool(f'c{i}_{j}'))
        bits.append(row)
    if I.mode == 'symbolic':
        arg = SymMatrix(bits)
    else:
        arg = ' '.join(''.join('1' if b else '0' for b in row) for row in bits)
    s = Strop(arg)
    spec = Or(*[valid_trunk(bits, R, C, r0, r1, c0, c1) for r0 in range(R) for r1 in range(r0, R)
                for c0 in range(C) for c1 in range(c0, C)])
    I.observe('is_strop', s.is_strop)
    I.reached('strop' if s.is_strop else 'not-strop')
    I.prove('is_strop<=>some-valid-trunk', Iff(s.is_strop, spec))
    for inst in s.instances():
        t = inst.trunk()
        rects = list(inst.rectangles())
        I.prove('instance-trunk-first', rects[0] is t)
        I.prove('instance-trunk-valid', valid_trunk(bits, R, C, t.rows.low, t.rows.high, t.columns.low, t.columns.high))
        cover = [[0] * C for _ in range(R)]
        for q in rects:
            for i in range(q.rows.low, q.rows.high + 1):
                for j in range(q.columns.low, q.columns.high + 1):
                    cover[i][j] += 1
        I.prove('instance-partitions-the-cells', And(*[Iff(bits[i][j], cover[i][j] == 1) for i in range(R) for j in range(C)]) and
                all(cover[i][j] <= 1 for i in range(R) for j in range(C)))
        ok = True
        for side, lst in (('N', inst._north), ('S', inst._south), ('E', inst._east), ('W', inst._west)):
            for q in inst.rectangles(side):
                if side in 'NS':
                    ok = ok and t.columns.low <= q.columns.low <= q.columns.high <= t.columns.high
                    ok = ok and (q.rows.high == t.rows.low - 1 if side == 'N' else q.rows.low == t.rows.high + 1)
                else:
                    ok = ok and t.rows.low <= q.rows.low <= q.rows.high <= t.rows.high
                    ok = ok and (q.columns.high == t.columns.low - 1 if side == 'W' else q.columns.low == t.columns.high + 1)
        I.prove('branches-abut-trunk-within-extent', ok)
        I.prove('rectangles(which)-consistent', len(list(inst.rectangles('B'))) == len(rects) - 1 and
                list(inst.rectangles('T')) == [t])


# polygons on a 4x4 lattice of coordinates (indices), counter-clockwise
POLYGONS = {
    'rect': [(0, 0), (3, 0), (3, 3), (0, 3)],
    'L': [(0, 0), (3, 0), (3, 1), (1, 1), (1, 3), (0, 3)],
    'T': [(0, 2), (1, 2), (1, 0), (2, 0), (2, 2), (3, 2), (3, 3), (0, 3)],
    'U': [(0, 0), (3, 0), (3, 3), (2, 3), (2, 1), (1, 1), (1, 3), (0, 3)],
    'plus': [(1, 0), (2, 0), (2, 1), (3, 1), (3, 2), (2, 2), (2, 3), (1, 3), (1, 2), (0, 2), (0, 1), (1, 1)],
    'stairs2': [(0, 0), (3, 0), (3, 1), (2, 1), (2, 2), (0, 2)],
    'stairs2b': [(0, 0), (2, 0), (2, 1), (3, 1), (3, 2), (0, 2)],
    'stairs3': [(0, 0), (3, 0), (3, 1), (2, 1), (2, 2), (1, 2), (1, 3), (0, 3)],
    'S': [(0, 0), (2, 0), (2, 2), (3, 2), (3, 3), (1, 3), (1, 1), (0, 1)],
    # not single-trunk orthogons (the diagonal staircase of the module's own documentation, and a ring-free spiral arm)
    'zigzag': [(2, 0), (3, 0), (3, 2), (2, 2), (2, 3), (0, 3), (0, 2), (1, 2), (1, 1), (2, 1)],
    'zigzag2': [(0, 0), (1, 0), (1, 1), (2, 1), (2, 2), (3, 2), (3, 3), (1, 3), (1, 2), (0, 2)],
}
NOT_STROP = {'zigzag', 'zigzag2'}


def body_poly(I, case):
    verts = POLYGONS[case['name']]
    xs = [I.real('x0', 0, 10)]
    for k in range(3):
        xs.append(xs[-1] + I.real(f'gx{k}', 0.01, 10))
    ys = [0.0, 1.0, 2.5, 3.0]
    pts = [(xs[i], ys[j]) for (i, j) in verts]
    if case['transposed']:
        pts = [(y, x) for (x, y) in pts]
    if case['reverse']:
        pts = list(reversed(pts))
    vertices = [Point(x, y) for (x, y) in pts]
    # shoelace area (independent)
    n = len(pts)
    twice = sum([pts[k][0] * pts[(k + 1) % n][1] - pts[(k + 1) % n][0] * pts[k][1] for k in range(n)], 0)
    area = (-twice if case['reverse'] != case['transposed'] else twice) / 2
    try:
        rl = strop_decomposition(vertices)
    except AssertionError:
        I.reached('polygon-rejected')
        I.prove('rejected-only-non-orthogons', case['name'] in NOT_STROP)
        return
    I.reached('polygon-ok')
    I.prove('accepted-only-orthogons', case['name'] not in NOT_STROP)
    I.observe('nrects', len(rl))
    I.prove('area-preserved', Eq(sum([r[2] * r[3] for r in rl], 0), area))
    m = Module('P', hard=True)
    for r in rl:
        m.add_rectangle(Rectangle(center=Point(r[0], r[1]), shape=Shape(r[2], r[3]), hard=True))
    first = m.rectangles[0]
    ok = m.create_stog()
    I.prove('recognised-as-orthogon', ok and m.has_stog)
    I.prove('trunk-first', m.rectangles[0].location == Rectangle.StogLocation.TRUNK and m.rectangles[0] is first)
    px, py = I.real('px', -1, 50), I.real('py', -1, 50)
    boxes = [geo.box(r[0], r[1], r[2], r[3]) for r in rl]
    I.prove('pieces-disjoint', symx.Count([geo.p_in_open(b, px, py) for b in boxes]) <= 1)
