"""C12 -- refinement decisions are consistent, exact and terminate."""
from fv import symx
from fv.symx import And, Or, Not, Eq, Implies, Iff
from fv import geo
from fv.props import alloc_common as AC
from fv.props.alloc_common import setup, reset, FUNCTIONS, ASSUMPTIONS  # noqa
from fv.props import c02

PID = 'C12'
BOUNDS = dict(c02.BOUNDS)
NOT_DECIDED = ['a bound on the number of rounds of the refine-while-needed loop (only: each round that is requested makes progress, '
               'and a round that is not requested is the identity)', 'sub-margin geometry / rounding']
MUST_REACH = ['refine', 'uniform', 'griddify', 'must-true', 'must-false']
OPTS = c02.OPTS


def cases(tier):
    cs = []
    for lay in c02.layouts(tier):
        for op in c02.OPS:
            if op == 'refine':
                for lv in ((1, 2) if tier == 'quick' else (1, 2, 3)):
                    if lv == 3 and lay['n'] > 2:
                        continue
                    if lay['template'] == 'free2' and lv >= (2 if tier == 'quick' else 3):
                        continue
                    cs.append(dict(lay, op=op, levels=lv))
            else:
                cs.append(dict(lay, op=op, levels=1))
    # allocations with an empty cell and with more y- than x-boundaries are in the templates (maps index 0; col3, stairs3)
    return cs


def body(I, case):
    al, cells = AC.make_alloc(I, case)
    t = I.real('t', 0, 1)
    op = case['op']
    old = AC.snapshot(al)
    try:
        if op == 'refine':
            must = al.must_be_refined(t)
        new = AC.apply_op(I, al, op, dict(t=t, levels=case['levels']))
    except (AssertionError, IndexError, ZeroDivisionError, KeyError, ValueError, TypeError) as e:
        I.detail = f"{op} raised {type(e).__name__}: {e}"
        I.prove(f'{op}-succeeds-on-valid-allocation', False)
        return
    I.reached(op)
    newc = AC.snapshot(new)
    parents = []
    for c in newc:
        j = AC.parent_of(I, old, c)
        parents.append(j)
        I.prove('inside-a-parent', j >= 0 and geo.box_inside(c['box'], old[j]['box']))
    I.observe('ncells', len(newc))
    if op == 'refine':
        I.reached('must-true' if must else 'must-false')
        changed = len(newc) != len(old) or not all(
            And(*[Eq(a, b) for a, b in zip(c['box'], o['box'])]) and c['depth'] == o['depth'] for c, o in zip(newc, old))
        I.observe('must', must)
        I.observe('changed', changed)
        I.prove('must_be_refined<=>refine-changes-it', must == changed)
        I.prove('must_be_refined<=>some-cell-should-split', Iff(must, Or(*[AC.should_split(o, t) for o in old])))
        I.prove('requested-round-makes-progress', (not must) or len(newc) > len(old))
        AC.exact_refine(I, 'refine', old, newc, parents, t, case['levels'])
    elif op == 'uniform':
        mx = max(o['depth'] for o in old)
        I.prove('uniform:every-depth-is-former-max', all(c['depth'] == mx for c in newc))
        I.prove('uniform:max_refinement_depth', new.max_refinement_depth() == mx and al.max_refinement_depth() == mx)
        for i, o in enumerate(old):
            kids = [c for c, j in zip(newc, parents) if j == i]
            I.prove('uniform:cell-count', len(kids) == 2 ** (mx - o['depth']))
            w, h = AC.halving_dims(o['w'], o['h'], mx - o['depth'])
            I.prove('uniform:kids-equal-size', And(*[And(Eq(k['w'], w), Eq(k['h'], h)) for k in kids]))
    else:
        AC.grid_aligned(I, 'griddify', old, newc, parents)
        for i, o in enumerate(old):
            kids = [c for c, j in zip(newc, parents) if j == i]
            I.prove('griddify:depth-counts-cuts', all(k['depth'] >= o['depth'] for k in kids) and
                    (len(kids) > 1 or kids[0]['depth'] == o['depth']))
