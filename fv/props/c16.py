"""C16 -- pseudo-Boolean expression algebra preserves integer semantics."""
from fv import symx
from fv.symx import And, Or, Not, Ite, Eq, Implies, Iff, Sum
import tools.rect.pseudobool as PB

PID = 'C16'
FUNCTIONS = ['Literal.__mul__/__rmul__/__neg__/__add__/__radd__/comparisons', 'Term.__init__/__mul__/__rmul__/__neg__/'
             '__add__/__radd__/comparisons', 'Expr.__init__/__add__/__sub__/__mul__/__rmul__/comparisons', 'Ineq.__init__']
BOUNDS = {'quick': 'expression trees of depth <= 2 over two variables (at depth 2 only the deepest-left leaf ranges over all 8 leaf kinds, the others over 5); leaves: literal of either polarity, c*literal, '
                   'integer constant, Expr(); every integer constant an unbounded symbolic integer; comparisons: all 5 operators '
                   'between depth<=1 trees and leaves',
          'thorough': 'additionally depth-3 trees op(op(op(leaf,leaf),leaf),leaf) and mul of depth-2 trees'}
ASSUMPTIONS = ['python int semantics = mathematical integers (z3 Int)']
NOT_DECIDED = ['float multipliers (int() truncation of floats)', 'more than two variables / depth > 3']
MUST_REACH = ['value', 'ineq']
LEAVES = ['x', 'nx', 'y', 'cx', 'cnx', 'cy', 'k', 'E']


def setup():
    symx.install(PB)


def reset():
    pass


class Refused(Exception):
    pass


REDUCED = ['x', 'cnx', 'cy', 'k', 'E']


def leaf(I, tag, env, full=True):
    kinds = LEAVES if full else REDUCED
    kind = kinds[I.choice(tag + '.kind', len(kinds))]
    xv, yv = env
    val = {'x': Ite(xv, 1, 0), 'nx': Ite(xv, 0, 1), 'y': Ite(yv, 1, 0)}
    if kind == 'x':
        return PB.Literal('x'), val['x'], kind
    if kind == 'nx':
        return -PB.Literal('x'), val['nx'], kind
    if kind == 'y':
        return PB.Literal('y'), val['y'], kind
    if kind == 'k':
        k = I.int(tag + '.k')
        return k, k, kind
    if kind == 'E':
        k = I.int(tag + '.e')
        return PB.Expr() + k, k, kind
    c = I.int(tag + '.c')
    lit = {'cx': PB.Literal('x'), 'cnx': PB.Literal('x', False), 'cy': PB.Literal('y')}[kind]
    v = {'cx': val['x'], 'cnx': val['nx'], 'cy': val['y']}[kind]
    side = I.choice(tag + '.side', 2) if full else 0
    obj = c * lit if side == 0 else lit * c
    return obj, c * v, kind


def build(I, node, tag, env):
    """returns (object built by the real API, directly computed integer value)"""
    if node in ('L', 'l'):
        o, v, _ = leaf(I, tag, env, node == 'L')
        return o, v
    op = node[0]
    try:
        if op in ('add', 'sub'):
            a, va = build(I, node[1], tag + 'l', env)
            b, vb = build(I, node[2], tag + 'r', env)
            if op == 'add':
                return a + b, va + vb
            return a - b, va - vb
        if op == 'mul':
            a, va = build(I, node[1], tag + 'l', env)
            k = I.int(tag + '.m')
            return a * k, va * k
        if op == 'rmul':
            a, va = build(I, node[1], tag + 'l', env)
            k = I.int(tag + '.m')
            return k * a, va * k
        if op == 'neg':
            a, va = build(I, node[1], tag + 'l', env)
            if isinstance(a, PB.Literal):
                raise Refused()  # -literal is logical negation by the API's definition, not arithmetic
            return -a, -va
    except TypeError:
        raise Refused()
    except Exception as e:
        if str(e) == 'Invalid type':
            raise Refused()
        raise
    raise AssertionError(op)


def value_of(e, env):
    """independent evaluator of a built Expr under the assignment"""
    xv, yv = env
    tot = e.c
    for key, t in e.t.items():
        var = xv if t.L.v == 'x' else yv
        lv = Ite(var, 1, 0) if t.L.s else Ite(var, 0, 1)
        tot = tot + t.c * lv
    return tot


def normal_form(e):
    conds = []
    seen = []
    for key, t in e.t.items():
        conds.append(t.c > 0)
        conds.append(key == t.L.v)
        conds.append(t.L.v not in seen)
        conds.append(t.L.v in ('x', 'y'))
        seen.append(t.L.v)
    return And(*conds) if conds else True


def shapes(depth, full=True):
    d0 = ['L']
    d1 = [[op, 'L', 'L'] for op in ('add', 'sub')] + [[op, 'L'] for op in ('mul', 'rmul', 'neg')]
    if depth == 1:
        return d1
    d2 = []
    lf = 'L' if full else 'l'
    for s in d1:
        s = [s[0], 'L'] + [lf] * (len(s) - 2)
        for op in ('add', 'sub'):
            d2.append([op, s, lf])
            d2.append([op, lf, s])
        for op in ('mul', 'rmul', 'neg'):
            d2.append([op, s])
    if depth == 2:
        return d2
    d3 = []
    for s in d2:
        if s[0] in ('add', 'sub') and isinstance(s[1], list) and s[1][0] in ('add', 'sub'):
            for op in ('add', 'sub'):
                d3.append([op, s, 'l'])
        if s[0] in ('add', 'sub'):
            d3.append(['mul', s])
    return d3


def cases(tier):
    cs = [dict(kind='value', shape=s) for s in shapes(1) + shapes(2, tier == 'thorough')]
    if tier == 'thorough':
        cs += [dict(kind='value', shape=s) for s in shapes(3, False)]
    lf = 'L' if tier == 'thorough' else 'l'
    for lit in ('x', 'nx'):
        for side in (0, 1):
            cs.append(dict(kind='reuse', lit=lit, side=side))
    for op in ('>=', '<=', '>', '<', '=='):
        cs.append(dict(kind='ineq', op=op, lhs='L', rhs='L'))
        cs.append(dict(kind='ineq', op=op, lhs=['add', 'L', lf], rhs=lf))
        cs.append(dict(kind='ineq', op=op, lhs=['sub', 'L', lf], rhs=lf))
        cs.append(dict(kind='ineq', op=op, lhs=['mul', 'L'], rhs='L'))
        cs.append(dict(kind='ineq', op=op, lhs=lf, rhs=['add', 'L', lf]))
    return cs


OPTS = {'quick': dict(max_paths=60000), 'thorough': dict(max_paths=400000)}


def body_reuse(I, case, env):
    """operands are values: using a Term / Literal / Expr in one expression must not change what it means in the next one"""
    xv, yv = env
    c, k, k2, c2 = I.int('c'), I.int('k'), I.int('k2'), I.int('c2')
    lit = PB.Literal('x', case['lit'] == 'x')
    lv = Ite(xv, 1, 0) if case['lit'] == 'x' else Ite(xv, 0, 1)
    t = c * lit if case['side'] == 0 else lit * c
    yl = PB.Literal('y')
    yval = Ite(yv, 1, 0)
    e0 = PB.Expr() + c2 * yl + k
    uses = [
        ('first-use', lambda: PB.Expr() + c2 * yl + t + k, c2 * yval + c * lv + k),
        ('second-use', lambda: PB.Expr() + t + k2, c * lv + k2),
        ('twice-in-one', lambda: PB.Expr() + t + t, 2 * c * lv),
        ('subtracted', lambda: PB.Expr() + k2 - t, k2 - c * lv),
        ('term+int', lambda: t + k, c * lv + k),
        ('expr-operand-reused', lambda: e0 + t, c2 * yval + k + c * lv),
        ('expr-operand-reused-again', lambda: e0 + e0, 2 * (c2 * yval + k)),
        ('expr-minus-itself-operand', lambda: (PB.Expr() + t) - e0, c * lv - c2 * yval - k),
    ]
    I.reached('value')
    for label, mk, direct in uses:
        e = mk()
        I.prove('reused-operand:' + label, Eq(value_of(e, env), direct))
        I.prove('reused-operand:normal-form', normal_form(e))
    I.prove('operand-term-unchanged', And(Eq(t.c, c), t.L.s == (case['lit'] == 'x'), t.L.v == 'x'))
    I.prove('operand-literal-unchanged', lit.s == (case['lit'] == 'x') and lit.v == 'x')
    I.prove('operand-expr-unchanged', Eq(value_of(e0, env), c2 * yval + k))


def body(I, case):
    env = (I.bool('xv'), I.bool('yv'))
    if case['kind'] == 'reuse':
        return body_reuse(I, case, env)
    if case['kind'] == 'value':
        try:
            obj, direct = build(I, case['shape'], 't', env)
        except Refused:
            I.reached('refused')
            return
        if isinstance(obj, (PB.Literal, PB.Term)):
            obj = PB.Expr() + obj
        if not isinstance(obj, PB.Expr):
            return  # plain integer arithmetic, not the library's
        I.reached('value')
        I.observe('c', obj.c)
        I.prove('value-preserved', Eq(value_of(obj, env), direct))
        I.prove('normal-form', normal_form(obj))
    else:
        try:
            a, va = build(I, case['lhs'], 'a', env)
            b, vb = build(I, case['rhs'], 'b', env)
            if not isinstance(a, (PB.Literal, PB.Term, PB.Expr)):
                return
            op = case['op']
            q = a >= b if op == '>=' else a <= b if op == '<=' else a > b if op == '>' else a < b if op == '<' else (a == b)
        except Refused:
            I.reached('refused')
            return
        except TypeError:
            I.reached('refused')
            return
        if not isinstance(q, PB.Ineq):
            I.reached('refused')
            return
        I.reached('ineq')
        lhs = value_of(q.lhs, env)
        holds = lhs >= q.rhs if q.op == '>=' else lhs > q.rhs if q.op == '>' else Eq(lhs, q.rhs)
        op = case['op']
        direct = va >= vb if op == '>=' else va <= vb if op == '<=' else va > vb if op == '>' else va < vb if op == '<' else Eq(va, vb)
        I.prove('ineq-meaning', Iff(holds, direct))
        # building the comparison must not change what its operands mean (they may be used again)
        for nm, o, v in (('lhs', a, va), ('rhs', b, vb)):
            if isinstance(o, PB.Expr):
                I.prove(f'ineq-operand-unchanged:{nm}', And(Eq(value_of(o, env), v), normal_form(o)))
            elif isinstance(o, PB.Term):
                tv = Ite(env[0] if o.L.v == 'x' else env[1], 1, 0) if o.L.s else Ite(env[0] if o.L.v == 'x' else env[1], 0, 1)
                I.prove(f'ineq-operand-unchanged:{nm}', Eq(o.c * tv, v))
        I.prove('ineq-normal-form', And(normal_form(q.lhs), q.lhs.c == 0, q.op in ('>=', '>', '=')))
