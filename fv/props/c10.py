"""C10 -- global floorplanning returns a feasible allocation and rigid hard modules."""
from fractions import Fraction
from fv import symx, shimall
from fv.symx import And, Or, Not, Eq, Implies, Iff, Count, SymReal
from fv import geo
from frame.die.die import Die
from frame.netlist.netlist import Netlist
import tools.glbfloor.optimization as OPT

PID = 'C10'
FUNCTIONS = ['glbfloor', 'optimize_allocation', 'solve_and_extract_solution', 'extract_solution', 'get_value', 'get_a',
             'get_neighbouring_cells', 'calculate_dispersions', 'create_initial_allocation', 'Allocation.refine/must_be_refined',
             'Module.recenter_rectangles', 'Allocation.__init__']
BOUNDS = {'quick': '4 concrete instances (2-cell die with two soft modules; die with a fixed module; soft + movable hard module of two '
                   'rectangles, flip off and on) x max_iter 1; threshold and alpha symbolic in (0,1); everything the '
                   'optimiser decides (all allocation ratios, centres, dispersions) symbolic',
          'thorough': '4-cell dies, a blockage, max_iter 2 on the soft and fixed instances (two optimisation rounds with a refinement in between)'}
STUBS = ['GEKKO replaced by a recording object: every Var is a fresh real within its bounds; when solve() returns the variables hold an '
         'ARBITRARY point satisfying the bounds and the posted LINEAR equations; nonlinear equations (dispersion, mirrored offsets) are '
         'not assumed (a weakening; linearity is judged in the variables of the current optimisation model - values fixed by an earlier '
         'optimisation are constants); Minimize ignored; every solve() may instead FAIL to converge (symbolic flag): it then raises if debug >= 1 '
         '(GEKKO default) and otherwise returns silently with APPSTATUS = 0 and arbitrary values within the bounds',
         'visualising mode: the drawing functions are no-ops and the solver-iteration budget of solve_and_extract_solution is 2 '
         'instead of 100 (loop bound); otherwise plotting is not reached (plotting_options=None)']
ASSUMPTIONS = ['the optimiser returns (its tolerance is not modelled: constraints hold exactly)', 'dies and netlists concrete']
NOT_DECIDED = ['"within solver tolerance"', 'whether/when IPOPT returns', 'mirroring decisions of flippable modules beyond rigidity '
               '(the squared-offset equations are nonlinear and not assumed)']
MUST_REACH = ['returned', 'solver-failure-raised']


def setup():
    shimall.install_frame()
    symx.install(OPT)


def reset():
    symx.ALLOW_STR = True
    shimall.reset_epsilon()


class GValue(list):
    @property
    def value(self):
        return self


class GVar(SymReal):
    """a GEKKO variable: a symbolic real (bounded) that the optimiser may set to anything feasible"""
    __slots__ = ('value', 'name')

    def __init__(self, e, name):
        SymReal.__init__(self, e)
        self.name = name
        self.value = GValue([SymReal(e)])


class CVar(float):
    """concrete-mode counterpart: a float carrying .value like a GEKKO variable; arithmetic keeps the type and comparisons are
    tolerant (1e-7), so that the posted equations can be checked against the replayed optimiser outcome"""
    TOL = 1e-7

    def __new__(cls, x):
        o = float.__new__(cls, x)
        o.value = GValue([float(x)])
        return o

    def _w(self, v):
        return CVar(v) if isinstance(v, float) else v

    def __add__(self, o): return self._w(float.__add__(self, o))
    def __radd__(self, o): return self._w(float.__radd__(self, o))
    def __sub__(self, o): return self._w(float.__sub__(self, o))
    def __rsub__(self, o): return self._w(float.__rsub__(self, o))
    def __mul__(self, o): return self._w(float.__mul__(self, o))
    def __rmul__(self, o): return self._w(float.__rmul__(self, o))
    def __truediv__(self, o): return self._w(float.__truediv__(self, o))
    def __rtruediv__(self, o): return self._w(float.__rtruediv__(self, o))
    def __neg__(self): return self._w(float.__neg__(self))
    def __pow__(self, o): return self._w(float.__pow__(self, o))

    def _t(self, o):
        return CVar.TOL * max(1.0, abs(float(self)), abs(float(o)))

    def __eq__(self, o): return abs(float(self) - float(o)) <= self._t(o)
    def __ne__(self, o): return not self.__eq__(o)
    def __le__(self, o): return float(self) <= float(o) + self._t(o)
    def __ge__(self, o): return float(self) >= float(o) - self._t(o)
    __hash__ = float.__hash__


class Options:
    pass


def nonlinear(e, prefix):
    """is the constraint nonlinear in the variables of THIS optimisation model (names starting with prefix)?  Values fixed by an
    earlier optimisation (other prefixes) are constants for this model, whatever expression they are."""
    import z3
    memo = {}

    def has_var(t):
        k = t.get_id()
        if k not in memo:
            if z3.is_const(t) and t.decl().kind() == z3.Z3_OP_UNINTERPRETED:
                memo[k] = str(t).startswith(prefix)
            else:
                memo[k] = any(has_var(c) for c in t.children())
        return memo[k]
    stack = [e]
    while stack:
        t = stack.pop()
        if z3.is_app(t):
            k = t.decl().kind()
            ch = t.children()
            if k == z3.Z3_OP_MUL and sum(1 for c in ch if has_var(c)) > 1:
                return True
            if k in (z3.Z3_OP_DIV, z3.Z3_OP_POWER) and has_var(ch[1]):
                return True
            if k == z3.Z3_OP_POWER and has_var(ch[0]):
                return True
            stack.extend(ch)
    return False


class FakeGEKKO:
    I = None
    count = 0

    def __init__(self, remote=False):
        self.eqs = []
        self.options = Options()
        self.nvars = 0
        FakeGEKKO.count += 1
        self.id = FakeGEKKO.count
        self.skipped = 0
        self.concrete = []

    def Var(self, value=None, lb=None, ub=None, name=None, integer=False):
        self.nvars += 1
        nm = f"g{self.id}.{name or 'v' + str(self.nvars)}"
        v = FakeGEKKO.I.real(nm, lb, ub)
        if FakeGEKKO.I.mode != 'symbolic':
            return CVar(v)
        return GVar(v.e, nm)

    def sum(self, xs):
        t = 0
        for x in xs:
            t = t + x
        return t

    def Equation(self, c):
        self.eqs.append(c)
        return c

    def Minimize(self, e):
        pass

    Obj = Minimize

    def solve(self, disp=True, debug=1):
        """contract of GEKKO.solve: either the solver converges (the variables then satisfy the posted equations, APPSTATUS = 1) or it
        does not (infeasible model, iteration limit ...): with debug >= 1 (GEKKO's default) that raises, with debug = 0 it returns
        silently with APPSTATUS = 0 and the variables at the last iterate (arbitrary values within their bounds)"""
        I = FakeGEKKO.I
        self.nsolve = getattr(self, 'nsolve', 0) + 1
        if I.flag(f'g{self.id}.solver_fails{self.nsolve}'):
            self.options.APPSTATUS = 0
            I.reached('solver-failed')
            if debug >= 1:
                raise Exception('@error: Solution Not Found')
            return
        self.options.APPSTATUS = 1
        for c in self.eqs:
            if isinstance(c, bool):
                # concrete replays: the replayed optimiser outcome must satisfy the (linear) equations this run posts, otherwise the
                # replay has left the counterexample's path (rounding) and says nothing
                I.assume(c) if I.mode == 'symbolic' else self.concrete.append(c)
                continue
            if I.mode == 'symbolic' and nonlinear(c.e, f'g{self.id}.'):
                self.skipped += 1
                continue
            if I.mode == 'symbolic':
                I.assume(c)
        I.reached('solved')


INST = {
    'soft2': dict(die=dict(width=4.0, height=2.0), grid=(1, 2),
                  mods={'A': {'area': 3.0, 'center': [1.0, 1.0]}, 'B': {'area': 2.0, 'center': [3.0, 1.0]}}, nets=[['A', 'B']]),
    'fixed': dict(die=dict(width=6.0, height=2.0), split=2,
                  mods={'F': {'fixed': True, 'rectangles': [[1.0, 1.0, 2.0, 2.0]]}, 'A': {'area': 3.0, 'center': [4.0, 1.0]}}, nets=[['A', 'F']]),
    'fixed-overlap': dict(die=dict(width=6.0, height=2.0), split=2,   # the soft module's initial square lies partly on the fixed cell
                          mods={'F': {'fixed': True, 'rectangles': [[1.0, 1.0, 2.0, 2.0]]}, 'A': {'area': 4.0, 'center': [2.0, 1.0]},
                                'B': {'area': 1.0, 'center': [5.0, 1.0]}}, nets=[['A', 'F'], ['A', 'B']]),
    'stacked': dict(die=dict(width=4.0, height=2.0), grid=(1, 2),   # the initial allocation needs no refinement but is infeasible
                    mods={'A': {'area': 4.0, 'center': [1.0, 1.0]}, 'B': {'area': 4.0, 'center': [1.0, 1.0]}}, nets=[['A', 'B']]),
    'hard': dict(die=dict(width=8.0, height=4.0), grid=(1, 2),
                 mods={'Hd': {'hard': True, 'rectangles': [[2.0, 1.0, 2.0, 2.0], [3.5, 1.0, 1.0, 1.0]]},
                       'A': {'area': 4.0, 'center': [6.0, 2.0]}}, nets=[['A', 'Hd']]),
    'hardflip': dict(die=dict(width=8.0, height=4.0), grid=(1, 2),
                     mods={'Hd': {'hard': True, 'flip': True, 'rectangles': [[2.0, 1.0, 2.0, 2.0], [3.5, 1.5, 1.0, 1.0]]},
                           'A': {'area': 4.0, 'center': [6.0, 2.0]}}, nets=[['A', 'Hd', 2.0]]),
    'grid4': dict(die=dict(width=4.0, height=4.0), grid=(2, 2),
                  mods={'A': {'area': 5.0, 'center': [1.0, 1.0]}, 'B': {'area': 4.0, 'center': [3.0, 3.0]},
                        'C': {'area': 2.0, 'center': [3.0, 1.0]}}, nets=[['A', 'B', 'C'], ['A', 'C']]),
    'blockage': dict(die=dict(width=6.0, height=2.0, regions=[[1.0, 1.0, 2.0, 2.0, '#']]), split=2,
                     mods={'A': {'area': 3.0, 'center': [4.0, 1.0]}, 'B': {'area': 2.0, 'center': [5.0, 1.0]}}, nets=[['A', 'B']]),
}


def cases(tier):
    cs = [dict(inst='soft2', max_iter=1), dict(inst='fixed', max_iter=1), dict(inst='fixed-overlap', max_iter=1), dict(inst='stacked', max_iter=1), dict(inst='stacked', max_iter=2),
          dict(inst='hard', max_iter=1), dict(inst='hardflip', max_iter=1),
          # the visualising mode (one solver call per solver iteration, debug=0), solver-iteration budget cut from 100 to 2
          dict(inst='soft2', max_iter=1, visualize=True), dict(inst='fixed', max_iter=1, visualize=True)]
    if tier == 'thorough':
        cs += [dict(inst='soft2', max_iter=2), dict(inst='grid4', max_iter=1), dict(inst='blockage', max_iter=2), dict(inst='fixed', max_iter=2),
               dict(inst='fixed-overlap', max_iter=2)]
    return cs


OPTS = {'quick': dict(max_paths=30000, budget_s=900), 'thorough': dict(max_paths=300000, budget_s=1500)}


def body(I, case):
    inst = INST[case['inst']]
    net = Netlist({'Modules': inst['mods'], 'Nets': inst['nets']})
    die = Die(dict(inst['die']), net)
    if 'grid' in inst:
        die.initial_grid(*inst['grid'])
    if 'split' in inst:
        die.split_refinable_regions(2.0, inst['split'])
    W, H = die.width, die.height
    before = {m.name: [(r.center.x, r.center.y, r.shape.w, r.shape.h) for r in m.rectangles] for m in net.modules}
    threshold = I.real('threshold', 0, 1)
    alpha = I.real('alpha', 0, 1)
    I.assume(And(threshold > 0.01, threshold < 0.99, alpha > 0, alpha < 1))
    saved = OPT.GEKKO
    OPT.GEKKO = FakeGEKKO  # the optimiser is an environment stub in both modes (replays pin its outcome to the model's values)
    FakeGEKKO.I = I
    FakeGEKKO.count = 0
    po = None
    saved_vis = (OPT.get_joint_floorplan_plot, OPT.do_plots, OPT.solve_and_extract_solution.__defaults__, OPT.__dict__.get('print'))
    if case.get('visualize'):
        class _Img:
            def save(self, *a, **k):
                pass
        po = OPT.PlottingOptions(name='fv-unused', joint_plot=True, visualize=True)
        OPT.get_joint_floorplan_plot = lambda *a, **k: _Img()   # drawing is outside the property (and needs no display)
        OPT.do_plots = lambda *a, **k: None
        OPT.print = lambda *a, **k: None
        OPT.solve_and_extract_solution.__defaults__ = (2,) + tuple(saved_vis[2][1:])   # bound: 2 solver iterations instead of 100
    try:
        try:
            out_die, al = OPT.glbfloor(die, threshold, alpha, max_iter=case['max_iter'], plotting_options=po)
        except ZeroDivisionError:
            I.discard('a module lost all its area in the filtered allocation (center/0): optimiser outcome outside the stub contract')
        except AssertionError as e:
            # the property speaks about the cases in which global floorplanning returns; an optimiser outcome that makes the
            # filtered allocation unrepresentable (e.g. no cell above 1-threshold: empty allocation) makes it raise instead
            I.reached('raised-instead-of-returning')
            I.discard(f'glbfloor raised: {e}')
        except Exception as e:
            if 'olution' not in str(e) or 'ot ' not in str(e):   # "Solution Not Found" / "solution was not found"
                raise
            I.reached('solver-failure-raised')   # the property speaks about the runs in which global floorplanning returns
            return
    finally:
        OPT.GEKKO = saved
        OPT.get_joint_floorplan_plot, OPT.do_plots = saved_vis[0], saved_vis[1]
        OPT.solve_and_extract_solution.__defaults__ = saved_vis[2]
        if saved_vis[3] is None:
            OPT.__dict__.pop('print', None)
    I.reached('returned')
    px, py = I.real('px', -1, 20), I.real('py', -1, 20)
    cells = al.allocations
    boxes = [geo.rbox(a.rect) for a in cells]
    I.prove('cells-inside-die', And(*[geo.box_inside(b, (0, 0, W, H)) for b in boxes]))
    I.prove('cells-do-not-overlap', Count([geo.p_in_open(b, px, py) for b in boxes]) <= 1)
    for a in cells:
        I.prove('ratios-in-[0,1]', And(*[And(v >= 0, v <= 1) for v in a.alloc.values()]))
        I.prove('cell-not-over-occupied', sum(a.alloc.values(), 0) <= 1)
    for m in net.modules:
        if m.center is not None:
            I.prove('centre-inside-die', And(m.center.x >= 0, m.center.x <= W, m.center.y >= 0, m.center.y <= H))
        now = [(r.center.x, r.center.y, r.shape.w, r.shape.h) for r in m.rectangles]
        old = before[m.name]
        if m.is_fixed:
            I.prove('fixed-module-keeps-its-rectangles', len(now) == len(old) and And(*[And(*[Eq(u, v) for u, v in zip(p, q)]) for p, q in zip(now, old)]))
            fb = [geo.box(*q) for q in old]
            for a in cells:
                if I.pick([And(*[Eq(u, v) for u, v in zip(geo.rbox(a.rect), b)]) for b in fb]) >= 0:
                    I.prove('fixed-module-fully-owns-its-cells', list(a.alloc) == [m.name] and Eq(a.alloc[m.name], 1))
                else:
                    I.prove('fixed-module-nowhere-else', m.name not in a.alloc)
        elif m.is_hard:
            I.prove('hard-module-shapes-unchanged', len(now) == len(old) and And(*[And(Eq(p[2], q[2]), Eq(p[3], q[3])) for p, q in zip(now, old)]))
            # translation, composed with a mirror in x and/or y only if the module may be flipped
            tx = [And(*[Eq(p[0] - now[0][0], q[0] - old[0][0]) for p, q in zip(now, old)]),
                  And(*[Eq(p[0] - now[0][0], -(q[0] - old[0][0])) for p, q in zip(now, old)])]
            ty = [And(*[Eq(p[1] - now[0][1], q[1] - old[0][1]) for p, q in zip(now, old)]),
                  And(*[Eq(p[1] - now[0][1], -(q[1] - old[0][1])) for p, q in zip(now, old)])]
            if m.flip:
                I.prove('hard-module-translated-or-mirrored', And(Or(*tx), Or(*ty)))
            else:
                I.prove('hard-module-only-translated', And(tx[0], ty[0]))
    I.observe('ncells', len(cells))
