"""C06 -- single-trunk orthogon recognition is sound and complete."""
import itertools
from fv import symx
from fv.symx import And, Or, Not, Ite, Eq, Implies, Iff
from fv import geo
from frame.geometry import geometry as G
from frame.geometry.geometry import Rectangle, Point, Shape, create_stog
from frame.netlist.module import Module

PID = 'C06'
FUNCTIONS = ['create_stog', 'Rectangle.find_location', 'Rectangle.area_overlap', 'Rectangle.__eq__', 'Point.__eq__',
             'Rectangle.bounding_box', 'Rectangle.area', 'Module.create_stog', 'Module.has_stog', 'almost_eq']
DELTA = 1e-3
EPS = 1e-10
BOUNDS = {'quick': 'n<=2 rectangles in every order on all 36 band layouts (interval endpoints in {0,1,2,3}) and n=3 on the 27 '
                   'layouts with endpoints in {0,1,2}; one axis universal (reals in [-100,100], sizes in [1e-3,100]), the other '
                   'from the band layouts; both orientations',
          'thorough': 'n=3 on all 216 layouts, n=4 on the 81 layouts with endpoints in {0,1,2}'}
ASSUMPTIONS = ['R model; separation margin: two boundary coordinates on the symbolic axis are equal or differ by >= 1e-3 '
               '(tolerances 1e-10 / 1e-5 in force), so "within epsilon" and "equal" coincide',
               'Rectangle tolerances preset to (1e-10, 1e-5)']
NOT_DECIDED = ['(roles left by an earlier recognition are part of the pre-state: none / all TRUNK / mixed)', 'which trunk is preferred when several qualify', 'sub-margin gaps/overlaps', 'both axes symbolic at once']
MUST_REACH = ['stog-true', 'stog-false']
L = Rectangle.StogLocation


def setup():
    symx.install(G)


def reset():
    Rectangle._distance_epsilon = EPS
    Rectangle._area_epsilon = 1e-5


INTERVALS3 = [(0, 1), (1, 2), (2, 3), (0, 2), (1, 3), (0, 3)]
INTERVALS2 = [(0, 1), (1, 2), (0, 2)]


def cases(tier):
    cs = []
    plan = [(1, INTERVALS2), (2, INTERVALS3), (3, INTERVALS2)] if tier == 'quick' else \
        [(1, INTERVALS2), (2, INTERVALS3), (3, INTERVALS3), (4, INTERVALS2)]
    for n, ivs in plan:
        for combo in itertools.product(ivs, repeat=n):
            for tr in (0, 1):
                cs.append(dict(n=n, bands=[list(c) for c in combo], transposed=tr, via_module=(n == 2 and tr == 0),
                               stale=(len(cs) % 3)))   # roles left on the rectangles by an earlier recognition: none / all TRUNK / mixed
    return cs


OPTS = {'quick': dict(max_paths=50000), 'thorough': dict(max_paths=300000)}


def side_ok(t, r, loc):
    """r abuts side `loc` of t within the side's extent (boxes: lx,ly,ux,uy)"""
    if loc == L.NORTH:
        return And(Eq(r[1], t[3]), r[0] >= t[0], r[2] <= t[2])
    if loc == L.SOUTH:
        return And(Eq(r[3], t[1]), r[0] >= t[0], r[2] <= t[2])
    if loc == L.EAST:
        return And(Eq(r[0], t[2]), r[1] >= t[1], r[3] <= t[3])
    if loc == L.WEST:
        return And(Eq(r[2], t[0]), r[1] >= t[1], r[3] <= t[3])
    return False


def is_branch(t, r):
    return And(Not(geo.interiors_meet(t, r)), Or(*[side_ok(t, r, s) for s in (L.NORTH, L.SOUTH, L.EAST, L.WEST)]))


def body(I, case):
    n = case['n']
    rects, boxes, raw = [], [], []
    xs = []
    for i in range(n):
        cx = I.real(f'x{i}', -100, 100)
        w = I.real(f'w{i}', DELTA, 100)
        lo, hi = case['bands'][i]
        cy, h = (lo + hi) / 2.0, float(hi - lo)
        if case['transposed']:
            r = Rectangle(center=Point(cy, cx), shape=Shape(h, w))
            boxes.append((float(lo), cx - w / 2, float(hi), cx + w / 2))
            raw.append((cy, cx, h, w))
        else:
            r = Rectangle(center=Point(cx, cy), shape=Shape(w, h))
            boxes.append((cx - w / 2, float(lo), cx + w / 2, float(hi)))
            raw.append((cx, cy, w, h))
        xs += [cx - w / 2, cx + w / 2]
        rects.append(r)
    # separation margin on the symbolic axis
    for a, b in itertools.combinations(xs, 2):
        I.assume(Or(Eq(a, b), a - b >= DELTA, b - a >= DELTA))
    objs = list(rects)
    stale = case.get('stale', 0)
    for k, r in enumerate(rects):   # the rectangles may carry roles from an earlier recognition (e.g. before a branch was moved)
        if stale == 1:
            r.location = L.TRUNK
        elif stale == 2:
            r.location = [L.TRUNK, L.NORTH, L.EAST, L.SOUTH][k % 4]
    if case.get('via_module'):
        m = Module('M', hard=True)
        for r in rects:
            m.add_rectangle(r)
        ret = m.create_stog()
        lst = m.rectangles
        I.prove('has_stog=ret', m.has_stog == ret)
    else:
        lst = rects
        ret = create_stog(lst)
    I.observe('ret', ret)
    I.observe('locs', [r.location.name for r in lst])
    box_of = {id(o): b for o, b in zip(objs, boxes)}
    raw_of = {id(o): b for o, b in zip(objs, raw)}
    # the spec: some position can serve as trunk (others compared by position, not by value)
    def trunk(i):
        return And(*[is_branch(boxes[i], boxes[j]) for j in range(n) if j != i])
    exists = Or(*[trunk(i) for i in range(n)]) if n > 1 else True
    I.prove('recognised-iff-some-trunk', Iff(ret, exists))
    # only reorders
    I.prove('permutation-of-same-objects', len(lst) == n and sorted(map(id, lst)) == sorted(map(id, objs)))
    I.prove('rectangles-unaltered', And(*[And(Eq(o.center.x, raw_of[id(o)][0]), Eq(o.center.y, raw_of[id(o)][1]),
                                               Eq(o.shape.w, raw_of[id(o)][2]), Eq(o.shape.h, raw_of[id(o)][3]),
                                               o.region == '_') for o in lst if id(o) in raw_of]))
    if ret:
        I.reached('stog-true')
        t = box_of[id(lst[0])]
        I.prove('trunk-first-and-labelled', lst[0].location == L.TRUNK)
        I.prove('first-is-a-valid-trunk', And(*[is_branch(t, box_of[id(r)]) for r in lst[1:]]))
        for k, r in enumerate(lst[1:]):
            I.prove('branch-carries-its-side', And(r.location in (L.NORTH, L.SOUTH, L.EAST, L.WEST),
                                                   side_ok(t, box_of[id(r)], r.location)))
    else:
        I.reached('stog-false')
        I.prove('no-role-when-not-recognised', all(r.location == L.NO_POLYGON for r in lst))
