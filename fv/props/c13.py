"""C13 -- force-directed relocation: fixed modules stay, centres stay in the die."""
import copy
from fractions import Fraction
from fv import symx, shimall
from fv.symx import And, Or, Not, Eq, Implies, Iff, Le
from frame.geometry.geometry import Point, Shape, Rectangle
from frame.die.die import Die
from frame.netlist.netlist import Netlist
import frame.netlist.netlist as NL
import tools.force.fruchterman_reingold as FR

PID = 'C13'
FUNCTIONS = ['fruchterman_reingold_layout (f_att, f_rep, die_repelling, clamp, write-back)', 'force_algorithm',
             'Point arithmetic', 'Netlist/Die construction']
BOUNDS = {'quick': 'layout: 2 modules (1 fixed) and 3 modules (1 fixed, 1 terminal-free), 1 net, max_iter in {0,1} from an arbitrary '
                   'start inside or outside the die, every product/quotient/sqrt of symbolic terms uninterpreted (over-approximation of '
                   'the path set); force_algorithm: 12 spring constants with arbitrary costs; binary64 kernel: write-back of a fixed '
                   'module on a concrete die',
          'thorough': 'additionally 3 modules (a fixed terminal pin on a 3-pin net) on 4 start zones'}
STUBS = ['max/min inside the module: if-then-else terms instead of forks (same value)', 'nonlinear arithmetic: uninterpreted functions mul/div/sqrt (deterministic, sqrt >= 0)',
         'force_algorithm: fruchterman_reingold_layout, total_intersection_area and Netlist.wire_length replaced by arbitrary-valued '
         'deterministic stubs recording their calls', 'PIL/matplotlib plotting not reached (visualize=None)']
ASSUMPTIONS = ['fixed modules lie inside the die initially', 'one iteration from an arbitrary state is the inductive step for any iteration count']
NOT_DECIDED = ['finiteness (NaN/overflow) of the centres through the float iteration', 'two or more unrolled iterations', 'visualisation']
MUST_REACH = ['layout', 'force', 'force-wl', 'force-radius', 'fp-fixed']


def setup():
    shimall.install_frame()
    symx.install(FR)
    FR.max, FR.min = symx.sym_max, symx.sym_min  # numeric max/min as if-then-else terms (no fork); same value as the builtins


def reset():
    symx.ALLOW_STR = True
    symx.UF_NONLINEAR = False
    shimall.reset_epsilon()
    if symx.z3 is not None:
        FR.math = symx.MATH


def cases(tier):
    cs = []
    cs.append(dict(kind='layout', mods=2, max_iter=0, zone=None, twice=True))
    for zx in (0, 1, 2):
        for zy in (0, 1, 2):
            cs.append(dict(kind='layout', mods=2, max_iter=1, zone=[zx, zy], twice=False))
    cs.append(dict(kind='layout', mods=2, max_iter=1, zone=[1, 1], twice=True))
    cs.append(dict(kind='layout', mods=2, max_iter=1, zone=[1, 1], twice=False, square=True))
    cs.append(dict(kind='layout', mods=2, max_iter=0, zone=None, twice=False, square=True))
    # starts far outside the die on a wide and on a narrow die: whatever the forces are, one step cannot bring the module back, so the
    # result is decided by the clamp alone (counterexamples of these cases replay concretely although the forces are abstracted)
    for far in ('above', 'below', 'left', 'right'):
        for shape in ('wide', 'narrow'):
            cs.append(dict(kind='layout', mods=2, max_iter=1, zone=None, far=far, shape=shape, twice=False))
    if tier == 'thorough':
        for zx, zy in ((0, 0), (1, 1), (2, 1), (1, 2)):
            cs.append(dict(kind='layout', mods=3, max_iter=1, zone=[zx, zy], twice=False))
    cs.append(dict(kind='force'))
    # the candidate layouts move the centres (symbolic positions) and the REAL Netlist.wire_length is read; with and without the
    # wire length of the input having been read before the relocation
    # (4 of the 12 candidates symbolic at a time -- 16 orderings each -- the others at concrete, more expensive places)
    for free in ([0, 1, 2, 3], [4, 7, 10, 11]) + (([2, 5, 6, 8, 9], [0, 3, 6, 9, 11]) if tier == 'thorough' else ()):
        for pre in (False, True):
            cs.append(dict(kind='force-wl', pre_read=pre, free=free))
    # the REAL total_intersection_area on a design with symbolic areas, as the first thing done and after the same function was
    # used on another design whose modules have the same names
    for hist in (False, True):
        cs.append(dict(kind='force-radius', history=hist))
    cs.append(dict(kind='fp-fixed'))
    return cs


OPTS = {'quick': dict(max_paths=60000, budget_s=900), 'thorough': dict(max_paths=600000, budget_s=1500)}


def ctx_class(case):
    if case['kind'] == 'fp-fixed':
        from fv import symf
        return symf.FCtx
    return None


def build(I, case, tag=''):
    if case.get('concrete'):
        net = Netlist({'Modules': {'FX': {'fixed': True, 'rectangles': [[3.0, 2.5, 1.0, 1.0]]},
                                   'S0': {'area': 2.0, 'center': [6.0, 4.0]}}, 'Nets': [['FX', 'S0', 2.0]]})
        return Die({'width': 10.0, 'height': 8.0}, net), net, 10.0, 8.0, (3.0, 2.5)
    W, H = I.real('W', 1, 100), 8.0
    fx, fy = I.real('fx', 0.5, 99.5), 2.5
    I.assume(And(Or(Eq(fx + 0.5, W), fx + 0.5 + 0.01 <= W), Or(Eq(fx, 0.5), fx >= 0.51)))  # separation margin (see C01)
    mods = {'FX': {'fixed': True, 'rectangles': [[fx, fy, 1.0, 1.0]]},
            'S0': {'area': (I.real('a0', 0.01, 50) if not case.get('square') else 2.25),
                   'center': [I.real('c0x', -50, 150), I.real('c0y', -50, 150)]}}
    nets = [['FX', 'S0', I.real('w0', 0.01, 10)]]
    if case['mods'] == 3:
        # third module: a fixed terminal pin on a 3-pin net
        mods['T1'] = {'terminal': True, 'fixed': True, 'center': [I.real('c1x', 0, 100), 6.5]}
        nets = [['FX', 'S0', 'T1', I.real('w0', 0.01, 10)]]
    net = Netlist({'Modules': mods, 'Nets': nets})
    die = Die({'width': W, 'height': H}, net)
    build.centres = {m.name: (m.center.x, m.center.y) for m in net.modules if m.is_fixed}
    if case.get('mods') == 3:
        I.assume(net.get_module('T1').center.x <= W)
    if case.get('far'):
        c = net.get_module('S0').center
        I.assume(W >= 24 if case['shape'] == 'wide' else W <= 3)
        I.assume({'above': c.y >= 40, 'below': c.y <= -30, 'left': c.x <= -30, 'right': c.x >= W + 40}[case['far']])
        I.assume(And(c.x >= -45, c.x <= 145, c.y >= -45, c.y <= 145))
    z = case.get('zone')
    if z is not None:  # partition of the start positions of S0 (jointly exhaustive over the cases)
        c = net.get_module('S0').center
        for v, size, k in ((c.x, W, z[0]), (c.y, H, z[1])):
            I.assume([v < size / 10, And(v >= size / 10, v <= size - size / 10), v > size - size / 10][k])
    return die, net, W, H, (fx, fy)


def snapshot(net):
    return dict(names=[m.name for m in net.modules], areas=[m.area() for m in net.modules],
                rects=[[(r.center.x, r.center.y, r.shape.w, r.shape.h, r.region, r.fixed) for r in m.rectangles] for m in net.modules],
                nets=[([m.name for m in e.modules], e.weight) for e in net.edges],
                kinds=[(m.is_fixed, m.is_hard, m.is_terminal) for m in net.modules])


def same_snapshot(a, b):
    ok = a['names'] == b['names'] and a['kinds'] == b['kinds'] and len(a['nets']) == len(b['nets'])
    conds = [ok]
    for x, y in zip(a['areas'], b['areas']):
        conds.append(Eq(x, y))
    for ra, rb in zip(a['rects'], b['rects']):
        conds.append(len(ra) == len(rb))
        for p, q in zip(ra, rb):
            conds += [Eq(p[0], q[0]), Eq(p[1], q[1]), Eq(p[2], q[2]), Eq(p[3], q[3]), p[4] == q[4], p[5] == q[5]]
    for (na, wa), (nb, wb) in zip(a['nets'], b['nets']):
        conds += [na == nb, Eq(wa, wb)]
    return And(*conds)


def body(I, case):
    if case['kind'] == 'layout':
        return body_layout(I, case)
    if case['kind'] == 'force':
        return body_force(I, case)
    if case['kind'] == 'force-wl':
        return body_force_wl(I, case)
    if case['kind'] == 'force-radius':
        return body_force_radius(I, case)
    return body_fp(I, case)


def body_layout(I, case):
    die, net, W, H, (fx, fy) = build(I, case)
    kappa = I.real('kappa', 0.1, 2)
    if case.get('square'):
        # the soft module got its default square (as Netlist.create_squares does before an allocation): the square is one of the
        # rectangles that relocation must not touch
        net.get_module('S0').create_square()
    before = snapshot(net)
    if I.mode == 'symbolic':
        symx.UF_NONLINEAR = True
    try:
        out, imgs = FR.fruchterman_reingold_layout(die, kappa, False, None, case['max_iter'])
        net2 = None
        if case.get('twice'):  # determinism: the same call on an equal, independently built design
            symx.UF_NONLINEAR = False
            die2, net2, _, _, _ = build(I, case)
            symx.UF_NONLINEAR = True
            out2, _ = FR.fruchterman_reingold_layout(die2, kappa, False, None, case['max_iter'])
    except (ZeroDivisionError, ValueError, OverflowError, AssertionError) as e:
        I.detail = f"raised {type(e).__name__}: {e}"
        I.prove('layout-never-fails', False)
        return
    finally:
        symx.UF_NONLINEAR = False
    I.reached('layout')
    I.prove('returns-the-same-die', out is die and imgs == [])
    after = snapshot(net)
    I.prove('nothing-but-centres-changed', same_snapshot(before, after))
    orig_centres = getattr(build, 'centres', {})
    for m in net.modules:
        if m.is_fixed:
            ox, oy = orig_centres.get(m.name, (fx, fy))
            I.prove('fixed-module-has-not-moved', And(Eq(m.center.x, ox), Eq(m.center.y, oy)))
        elif case['max_iter'] > 0:
            I.prove('centre-inside-die', And(m.center.x >= 0, m.center.x <= W, m.center.y >= 0, m.center.y <= H))
        else:
            pass  # no iteration: the centre is the input centre, inside iff the input was
    if net2 is not None:
        I.prove('deterministic', And(*[And(Eq(a.center.x, b.center.x), Eq(a.center.y, b.center.y))
                                       for a, b in zip(net.modules, net2.modules)]))


def body_force(I, case):
    die, net, W, H, _ = build(I, dict(mods=2, concrete=True))
    symx.UF_NONLINEAR = False
    calls = []
    costs = []

    def st_layout(d, kappa=1.0, verbose=False, visualize=None, max_iter=100):
        calls.append((d, kappa, max_iter, visualize))
        return d, []

    def st_inter(d):
        v = I.real(f'inter{len(costs)}', 0, 1000)
        costs.append([v, None])
        return v

    def st_wl(self):
        v = I.real(f'wl{len(costs) - 1}', 0, 1000)
        costs[-1][1] = v
        return v
    saved = (FR.fruchterman_reingold_layout, FR.total_intersection_area, NL.Netlist.wire_length)
    FR.fruchterman_reingold_layout, FR.total_intersection_area = st_layout, st_inter
    NL.Netlist.wire_length = property(st_wl)
    try:
        out, imgs = FR.force_algorithm(die, False, None, 7)
    finally:
        FR.fruchterman_reingold_layout, FR.total_intersection_area, NL.Netlist.wire_length = saved
    I.reached('force')
    kappas = [i / 10 for i in range(4, 16)]
    I.prove('tries-the-12-spring-constants-on-copies', len(calls) == 13 and [c[1] for c in calls[:12]] == kappas and
            all(c[0] is not die for c in calls[:12]) and all(c[2] == 7 for c in calls))
    tot = [c[0] + c[1] / 2 for c in costs]
    chosen = calls[-1][1]
    k = kappas.index(chosen) if chosen in kappas else -1
    I.prove('final-layout-on-the-original-die', calls[-1][0] is die and out is die)
    I.prove('chosen-has-the-smallest-cost', k >= 0 and And(*[tot[k] <= t for t in tot]))
    I.prove('first-among-ties', k >= 0 and And(*[tot[j] > tot[k] for j in range(k)]))


def body_force_radius(I, case):
    symx.UF_NONLINEAR = False

    def mk(a0, a1, c):
        net = Netlist({'Modules': {'M0': {'area': a0, 'center': list(c)}, 'M1': {'area': a1, 'center': list(c)}}, 'Nets': [['M0', 'M1']]})
        return Die({'width': 10.0, 'height': 8.0}, net)
    if case['history']:
        FR.total_intersection_area(mk(1.0, 4.0, (3.0, 3.0)))   # an earlier, unrelated design (same module names, other areas)
    a0, a1 = I.real('a0', 0.5, 20), I.real('a1', 0.5, 20)
    got = FR.total_intersection_area(mk(a0, a1, (5.0, 4.0)))   # concentric discs: each ordered pair overlaps in the smaller disc
    I.reached('force-radius')
    want = 2 * symx.Min(a0, a1)
    # (compared with a slack of 1e-6: values remembered from the history are binary64 numbers, not exact reals)
    I.prove('overlap-term-of-the-cost-is-the-overlap-of-this-design', And(got - want <= 1e-6, want - got <= 1e-6), side=True)


def body_force_wl(I, case):
    die, net, W, H, _ = build(I, dict(mods=2, concrete=True))
    symx.UF_NONLINEAR = False
    KAPPAS = [i / 10 for i in range(4, 16)]
    pos, inter, calls = {}, [], []

    def st_layout(d, kappa=1.0, verbose=False, visualize=None, max_iter=100):
        j = len(calls)
        calls.append((d, kappa))
        if j < 12:   # a candidate: the soft module ends somewhere on the fixed module's horizontal line
            px = I.real(f'px{j}', 0, 10) if j in case['free'] else 3.0 + 0.5 * j
            pos[j] = px
            d.netlist.get_module('S0').center = Point(px, 2.5)
        return d, []

    def st_inter(d):
        v = I.real(f'inter{len(inter)}', 0, 1000) if len(inter) in case['free'] else 500.0 + len(inter)
        inter.append(v)
        return v
    if case['pre_read']:
        before = die.netlist.wire_length   # reading an observable of the input must not change the relocation
    saved = (FR.fruchterman_reingold_layout, FR.total_intersection_area)
    FR.fruchterman_reingold_layout, FR.total_intersection_area = st_layout, st_inter
    try:
        out, imgs = FR.force_algorithm(die, False, None, 7)
    finally:
        FR.fruchterman_reingold_layout, FR.total_intersection_area = saved
    I.reached('force-wl')
    # definition: the net {FX, S0} of weight 2: 2 * (sum of the two distances to the mean) = 2 * |px - 3|
    tot = [inter[j] + (2 * symx.Abs(pos[j] - 3.0)) / 2 for j in range(12)]
    chosen = calls[-1][1]
    k = KAPPAS.index(chosen) if chosen in KAPPAS else -1
    I.prove('chosen-has-the-smallest-cost(real wire length)', k >= 0 and len(calls) == 13 and And(*[Le(tot[k], t, tol=1e-9) for t in tot]), side=True)


def body_fp(I, case):
    """binary64: a fixed module's centre after relocation is bit-for-bit the centre before"""
    W, H = 3.0, 0.7
    cx, cy = I.fp('cx', 0.0, 3.0), I.fp('cy', 0.0, 0.7)
    net = Netlist({'Modules': {'T': {'terminal': True, 'fixed': True, 'center': [cx, cy]},
                               'S': {'area': 0.5, 'center': [1.0, 0.25]}}, 'Nets': [['T', 'S']]})
    die = Die({'width': W, 'height': H}, net)
    if I.mode == 'symbolic':
        from fv import symf
        FR.math = symf.FMATH
    out, _ = FR.fruchterman_reingold_layout(die, 1.0, False, None, 0)
    t = net.get_module('T')
    I.reached('fp-fixed')
    I.prove('fixed-module-bitwise-unmoved', And(t.center.x == cx, t.center.y == cy))
