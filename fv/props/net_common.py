"""Shared netlist-document builder for C04 / C05 / C19: bounded document structures with symbolic numbers."""
from fv import symx
from fv.symx import And, Or, Not, Eq, Implies, Iff

# module kinds -------------------------------------------------------------------------------------
# every builder returns (yaml-info dict, spec record) ; numbers come from I (symbolic or concrete)
KINDS = ['F1flat', 'H1flat', 'H2eq', 'S2eq', 'S_area', 'S_center_ar', 'S_regions', 'S_one_region', 'S_one_region_rect', 'S_rect', 'S_center_rects', 'S_regions_rects', 'H1', 'H2flip', 'H2', 'H3', 'F1', 'T', 'Tfixed', 'T_rect', 'Tfixed_rect']


def build_module(I, name, kind, idx):
    t = f'm{idx}'
    x0 = 10.0 * idx  # modules are laid out side by side so that nothing depends on inter-module overlap
    spec = dict(name=name, kind=kind, soft=kind.startswith('S'), hard=not kind.startswith('S'), fixed=kind in ('F1', 'F1flat', 'Tfixed', 'Tfixed_rect'),
                terminal=kind in ('T', 'Tfixed', 'T_rect', 'Tfixed_rect'), flip=kind == 'H2flip', areas=None, center=None, ar=None, rects=[])
    info = {}
    if kind == 'S_area':
        a = I.real(t + 'a', 0.01, 100)
        info = {'area': a}
        spec['areas'] = {'_': a}
    elif kind == 'S_center_ar':
        a = I.real(t + 'a', 0.01, 100)
        cx, cy = I.real(t + 'cx', 0, 100), I.real(t + 'cy', 0, 100)
        ar = I.real(t + 'ar', 0.1, 10)
        info = {'area': a, 'center': [cx, cy], 'aspect_ratio': ar}
        spec['areas'], spec['center'] = {'_': a}, (cx, cy)
        spec['ar'] = ('scalar', ar)
    elif kind == 'S_regions':
        a, b = I.real(t + 'a', 0.01, 100), I.real(t + 'b', 0.01, 100)
        cx, cy = I.real(t + 'cx', 0, 100), I.real(t + 'cy', 0, 100)
        lo, hi = I.real(t + 'arlo', 0, 1), I.real(t + 'arhi', 1, 10)
        info = {'area': {'dsp': a, 'bram': b}, 'center': [cx, cy], 'aspect_ratio': [lo, hi]}
        spec['areas'], spec['center'], spec['ar'] = {'dsp': a, 'bram': b}, (cx, cy), ('pair', lo, hi)
    elif kind == 'S_one_region':
        a = I.real(t + 'a', 0.01, 100)
        cx, cy = I.real(t + 'cx', 0, 100), I.real(t + 'cy', 0, 100)
        info = {'area': {'dsp': a}, 'center': [cx, cy]}
        spec['areas'], spec['center'] = {'dsp': a}, (cx, cy)
    elif kind == 'S_one_region_rect':
        a = I.real(t + 'a', 0.01, 100)
        x, w = I.real(t + 'x', 0, 5), I.real(t + 'w', 0.1, 4)
        info = {'area': {'bram': a}, 'rectangles': [[x0 + x + w / 2, 1.0, w, 2.0, 'bram']]}
        spec['areas'] = {'bram': a}
        spec['rects'] = [(x0 + x + w / 2, 1.0, w, 2.0, 'bram')]
    elif kind == 'S_rect':
        a = I.real(t + 'a', 0.01, 100)
        x, w = I.real(t + 'x', 0, 5), I.real(t + 'w', 0.1, 4)
        info = {'area': a, 'rectangles': [[x0 + x + w / 2, 1.0, w, 2.0]]}
        spec['areas'] = {'_': a}
        spec['rects'] = [(x0 + x + w / 2, 1.0, w, 2.0, '_')]
    elif kind == 'S_center_rects':
        # a stated centre AND rectangles: the loaded centre is the centroid of the rectangles, not the stated one
        a = I.real(t + 'a', 0.01, 100)
        cx, cy = I.real(t + 'cx', 0, 100), I.real(t + 'cy', 0, 100)
        x, w0, w1 = I.real(t + 'x', 0, 2), I.real(t + 'w0', 0.1, 3), I.real(t + 'w1', 0.1, 3)
        r0 = [x0 + x + w0 / 2, 1.0, w0, 2.0]
        r1 = [x0 + x + w0 + w1 / 2, 0.5, w1, 1.0]
        info = {'area': a, 'center': [cx, cy], 'rectangles': [r0, r1]}
        spec['areas'] = {'_': a}
        spec['rects'] = [tuple(r0) + ('_',), tuple(r1) + ('_',)]
    elif kind == 'S_regions_rects':
        a, b = I.real(t + 'a', 0.01, 100), I.real(t + 'b', 0.01, 100)
        x, w0, w1 = I.real(t + 'x', 0, 2), I.real(t + 'w0', 0.1, 3), I.real(t + 'w1', 0.1, 3)
        r0 = [x0 + x + w0 / 2, 1.0, w0, 2.0]
        r1 = [x0 + x + w0 + w1 / 2, 0.5, w1, 1.0, 'dsp']
        info = {'area': {'_': a, 'dsp': b}, 'rectangles': [r0, r1]}
        spec['areas'] = {'_': a, 'dsp': b}
        spec['rects'] = [tuple(r0) + ('_',), tuple(r1)]
    elif kind in ('H1flat', 'F1flat'):
        # the single-rectangle shorthand: rectangles: [x, y, w, h]
        x, w = I.real(t + 'x', 0, 5), I.real(t + 'w', 0.1, 4)
        info = {('fixed' if kind == 'F1flat' else 'hard'): True, 'rectangles': [x0 + x + w / 2, 1.5, w, 3.0]}
        spec['rects'] = [(x0 + x + w / 2, 1.5, w, 3.0, '_')]
        spec['fixed'] = kind == 'F1flat'
    elif kind in ('H2eq', 'S2eq'):
        # two rectangles of equal area sharing a complete side: either can serve as trunk
        x, w = I.real(t + 'x', 0, 2), I.real(t + 'w', 0.1, 3)
        r0 = [x0 + x + w / 2, 1.0, w, 2.0]
        r1 = [x0 + x + w + w / 2, 1.0, w, 2.0]
        if kind == 'H2eq':
            info = {'hard': True, 'rectangles': [r0, r1]}
            spec['rects'] = [tuple(r0) + ('_',), tuple(r1) + ('_',)]
        else:
            a, b = I.real(t + 'a', 0.01, 100), I.real(t + 'b', 0.01, 100)
            info = {'area': {'_': a, 'dsp': b}, 'rectangles': [r0, r1 + ['dsp']]}
            spec['areas'] = {'_': a, 'dsp': b}
            spec['rects'] = [tuple(r0) + ('_',), tuple(r1) + ('dsp',)]
    elif kind in ('H1', 'F1'):
        x, w = I.real(t + 'x', 0, 5), I.real(t + 'w', 0.1, 4)
        info = {('fixed' if kind == 'F1' else 'hard'): True, 'rectangles': [[x0 + x + w / 2, 1.5, w, 3.0]]}
        spec['rects'] = [(x0 + x + w / 2, 1.5, w, 3.0, '_')]
    elif kind in ('H2', 'H2flip'):
        x, w0, w1 = I.real(t + 'x', 0, 2), I.real(t + 'w0', 0.1, 3), I.real(t + 'w1', 0.1, 3)
        r0 = [x0 + x + w0 / 2, 1.0, w0, 2.0]
        r1 = [x0 + x + w0 + w1 / 2, 0.5, w1, 1.0]
        info = {'hard': True, 'rectangles': [r0, r1]}
        if kind == 'H2flip':
            info['flip'] = True
        spec['rects'] = [tuple(r0) + ('_',), tuple(r1) + ('_',)]
    elif kind == 'H3':
        x, w0, w1 = I.real(t + 'x', 0, 2), I.real(t + 'w0', 1.0, 3), I.real(t + 'w1', 0.1, 3)
        r0 = [x0 + x + w0 / 2, 1.0, w0, 2.0]
        r1 = [x0 + x + w0 + w1 / 2, 0.5, w1, 1.0]
        r2 = [x0 + x + 0.25, 2.5, 0.5, 1.0]
        info = {'hard': True, 'rectangles': [r1, r0, r2]}  # the trunk is NOT listed first
        spec['rects'] = [tuple(r1) + ('_',), tuple(r0) + ('_',), tuple(r2) + ('_',)]
    elif kind == 'T':
        info = {'terminal': True}
    elif kind == 'Tfixed':
        cx, cy = I.real(t + 'cx', 0, 100), I.real(t + 'cy', 0, 100)
        info = {'terminal': True, 'fixed': True, 'center': [cx, cy]}
        spec['center'] = (cx, cy)
    elif kind in ('T_rect', 'Tfixed_rect'):
        # an I/O pad with a footprint: a terminal (movable / fixed) that states its centre and has a rectangle
        x, w = I.real(t + 'x', 0, 5), I.real(t + 'w', 0.1, 4)
        r0 = [x0 + x + w / 2, 0.5, w, 1.0]
        info = {'terminal': True, 'center': [r0[0], 0.5], 'rectangles': [r0]}
        if kind == 'Tfixed_rect':
            info['fixed'] = True
        spec['rects'] = [tuple(r0) + ('_',)]
    else:
        raise AssertionError(kind)
    return info, spec


def build_doc(I, struct):
    """struct: dict(modules=[kind...], nets=[(member indices, weight_mode)]) ; weight_mode in 'none' | 'one' | 'sym'"""
    mods, specs = {}, []
    for i, kind in enumerate(struct['modules']):
        name = f'M{i}'
        info, spec = build_module(I, name, kind, i)
        mods[name] = info
        specs.append(spec)
    nets, nspecs = [], []
    for k, (members, wmode) in enumerate(struct.get('nets', [])):
        e = [f'M{i}' for i in members]
        w = 1
        if wmode == 'one':
            e.append(1)
        elif wmode == 'sym':
            w = I.real(f'w{k}', 0.01, 100)
            e.append(w)
        nets.append(e)
        nspecs.append(dict(members=[f'M{i}' for i in members], weight=w))
    tree = {'Modules': mods}
    if nets or struct.get('with_nets_key', True):
        tree['Nets'] = nets
    return tree, specs, nspecs


def module_view(m):
    """the observable state of a loaded module"""
    return dict(name=m.name, soft=m.is_soft, hard=m.is_hard, fixed=m.is_fixed, terminal=m.is_terminal, flip=m.flip,
                areas=dict(m.area_regions), center=None if m.center is None else (m.center.x, m.center.y),
                ar=None if m.aspect_ratio is None else (m.aspect_ratio.min_wh, m.aspect_ratio.max_wh),
                rects=[(r.center.x, r.center.y, r.shape.w, r.shape.h, r.region, r.fixed, r.hard, r.location.name) for r in m.rectangles])


def same_view(a, b):
    conds = [a['name'] == b['name'], a['soft'] == b['soft'], a['hard'] == b['hard'], a['fixed'] == b['fixed'],
             a['terminal'] == b['terminal'], a['flip'] == b['flip'], sorted(a['areas']) == sorted(b['areas']),
             (a['center'] is None) == (b['center'] is None), (a['ar'] is None) == (b['ar'] is None), len(a['rects']) == len(b['rects'])]
    if not all(conds):
        return False
    out = []
    for k in a['areas']:
        out.append(Eq(a['areas'][k], b['areas'][k]))
    if a['center'] is not None:
        out += [Eq(a['center'][0], b['center'][0]), Eq(a['center'][1], b['center'][1])]
    if a['ar'] is not None:
        out += [Eq(a['ar'][0], b['ar'][0]), Eq(a['ar'][1], b['ar'][1])]
    for p, q in zip(a['rects'], b['rects']):
        out += [Eq(p[0], q[0]), Eq(p[1], q[1]), Eq(p[2], q[2]), Eq(p[3], q[3]), p[4] == q[4], p[5] == q[5], p[6] == q[6], p[7] == q[7]]
    return And(*out)


def tree_equal(a, b):
    """structural equality of two YAML trees, numbers compared with Eq"""
    if isinstance(a, dict) and isinstance(b, dict):
        if list(a.keys()) != list(b.keys()):
            return False
        return And(*[tree_equal(a[k], b[k]) for k in a])
    if isinstance(a, (list, tuple)) and isinstance(b, (list, tuple)):
        if len(a) != len(b):
            return False
        return And(*[tree_equal(x, y) for x, y in zip(a, b)])
    if isinstance(a, (str, bool)) or isinstance(b, (str, bool)) or a is None or b is None:
        return type(a) is type(b) and a == b
    return Eq(a, b)


STRUCTS = {
    'quick': [
        dict(modules=['S_area', 'S_center_ar'], nets=[((0, 1), 'none')]),
        dict(modules=['S_regions', 'H2flip'], nets=[((0, 1), 'sym')]),
        dict(modules=['S_rect', 'H1'], nets=[((0, 1), 'one')]),
        dict(modules=['S_regions_rects', 'F1'], nets=[((1, 0), 'sym')]),
        dict(modules=['T', 'Tfixed', 'S_center_ar'], nets=[((0, 1, 2), 'sym')]),
        dict(modules=['H2', 'S_area'], nets=[]),
        dict(modules=['S_one_region', 'H3', 'S_one_region_rect'], nets=[((2, 0, 1), 'sym')]),
        dict(modules=['F1flat', 'H2eq', 'S2eq'], nets=[((0, 1), 'sym'), ((1, 2), 'none')]),
        dict(modules=['H1flat', 'S_area'], nets=[((0, 1), 'one')]),
        dict(modules=['S_center_rects', 'Tfixed'], nets=[((0, 1), 'sym')]),
        dict(modules=['Tfixed_rect', 'S_area', 'T_rect'], nets=[((0, 1), 'sym'), ((1, 2), 'none')]),
    ],
    'thorough': [
        dict(modules=['S_regions', 'H2flip', 'F1'], nets=[((0, 1, 2), 'sym'), ((2, 0), 'none')]),
        dict(modules=['S_regions_rects', 'Tfixed', 'H1'], nets=[((0, 1), 'sym'), ((1, 2), 'sym')]),
        dict(modules=['S_rect', 'S_center_ar', 'T'], nets=[((0, 1, 2), 'one'), ((0, 1), 'sym')]),
        dict(modules=['H2', 'H2flip', 'S_area'], nets=[((0, 1), 'sym'), ((1, 2), 'none')]),
    ],
}


def structs(tier):
    return STRUCTS['quick'] + (STRUCTS['thorough'] if tier == 'thorough' else [])
