"""C03 -- initial allocation equals the exact geometric overlap."""
from fv import symx, shimall
from fv.symx import And, Or, Not, Eq, Implies, Iff
from fv import geo
from frame.die.die import Die
from frame.netlist.netlist import Netlist
from frame.geometry.geometry import Point
from frame.allocation.allocation import create_initial_allocation

PID = 'C03'
FUNCTIONS = ['create_initial_allocation', 'Allocation.initial_allocation', 'Allocation._detect_fixed_rectangles', 'Allocation.__init__',
             'Netlist.create_squares', 'Module.create_square', 'Rectangle.area_overlap', 'Die.floorplanning_rectangles',
             'Die.__init__', 'Die.split_refinable_regions', 'Netlist.__init__']
H = 4.0
BOUNDS = {'quick': 'allocate - move the modules in place (symbolic displacement of one module) - allocate again on 4 dies x 3 module combinations; concrete die 12x4 (and, with concrete modules, a die with symbolic breakpoints) and <=1 blockage / specialised / fixed region on symbolic breakpoints (and the '
                   'die refined to >=2 cells); <=2 movable modules (one of them symbolic at a time, the other at a concrete place): soft without rectangles (area in {1, 2.25, 4}, symbolic centre x), soft '
                   'with 1-2 rectangles, hard; rectangle x-positions and widths symbolic, free to overlap other modules and to stick '
                   'out of the die; include-zero on and off',
          'thorough': '3 movable modules; two regions'}
ASSUMPTIONS = ['R model; one axis symbolic (y extents concrete)', 'separation margin 0.01 between distinct die boundaries',
               'include-zero only when every module touches some cell (the constructor cannot represent a module with zero total area): '
               'such pre-states are discarded']
NOT_DECIDED = ['terminals', 'modules whose own rectangles overlap (excluded by the property)', 'both axes symbolic']
MUST_REACH = ['allocated', 'moved', 'fp-ratio']
BANDS = {'full': (0, 4), 'lower': (0, 1), 'middle': (1, 3), 'upper': (3, 4)}
MODKINDS = ['soft0', 'soft1', 'soft2', 'hard1', 'hard2']


def setup():
    shimall.install_frame()


def reset():
    symx.ALLOW_STR = True
    shimall.reset_epsilon()
    import frame.geometry.geometry as G
    G.__dict__.pop('max', None)
    G.__dict__.pop('min', None)


def ctx_class(case):
    if case.get('kind') == 'fp-ratio':
        from fv import symf
        return symf.FCtx
    return None


def body_fp_ratio(I, case):
    """binary64 kernel: the occupancy ratio initial_allocation computes for a cell and one rectangle of a module,
    cell.area_overlap(rect) / cell.area, executed on the real Rectangle code, never exceeds 1"""
    import frame.geometry.geometry as G
    from frame.geometry.geometry import Rectangle, Shape
    # one axis symbolic (binary64), the other concrete and exact (unit height, both rectangles on the same row)
    cx, cy = I.fp('cx', 0.0, 100.0), 0.5
    w, h = I.fp('w', 0.01, 100.0), 1.0
    mx, my = I.fp('mx', 0.0, 100.0), 0.5
    mw, mh = I.fp('mw', 0.01, 200.0), 1.0
    if I.mode == 'symbolic':
        G.max, G.min = symx.sym_max, symx.sym_min   # if-then-else terms, same value as the builtins
    cell = Rectangle(center=Point(cx, cy), shape=Shape(w, h))
    mod = Rectangle(center=Point(mx, my), shape=Shape(mw, mh))
    ov = cell.area_overlap(mod)
    I.reached('fp-ratio')
    # ov <= area implies the ratio ov / area computed by initial_allocation is <= 1 (correctly rounded division)
    I.prove('overlap-area-at-most-cell-area(binary64)', ov <= cell.area)
    I.prove('overlap-area-at-most-module-rectangle-area(binary64)', ov <= mod.area)


def cases(tier):
    cs = []
    dies = [dict(region=None), dict(region=('#', 'lower')), dict(region=('fixed', 'full')), dict(region=('dsp', 'middle')),
            dict(region=None, split=2), dict(region=('fixed', 'lower'), split=2), dict(region=('fixed2', 'lower'))]
    combos = [['soft0'], ['soft1', 'hard1'], ['soft2', 'soft0'], ['hard2', 'soft1']]
    if tier == 'thorough':
        combos += [['soft0', 'soft1', 'hard1'], ['soft2', 'hard2', 'soft0']]
    for d in dies:
        for c in combos:
            for z in (0, 1):
                for sm in range(len(c)):
                    cs.append(dict(die=d, mods=c, zero=z, area=[1.0, 2.25, 4.0][(len(cs)) % 3], symmod=sm))
    for d in (dies[:3] if tier == 'quick' else dies[:4]):
        cs.append(dict(die=d, mods=['hard2'] if tier == 'quick' else ['soft1', 'hard2'], zero=0, symdie=True))
    # allocate, MOVE the modules in place (the way the placement tools do: centre coordinates updated, recenter_rectangles), allocate
    # again: the second allocation must be the allocation of the moved design (nothing remembered from before the move)
    for d in ([dies[0], dies[1], dies[2], dies[4]] if tier == 'quick' else dies):
        for c in [['soft0'], ['soft1', 'hard1'], ['hard2', 'soft0']]:
            for sm in range(len(c)):
                cs.append(dict(die=d, mods=c, zero=len(cs) % 2, area=2.25, symmod=sm, moved=True))
    cs.append(dict(kind='fp-ratio'))
    return cs


OPTS = {'quick': dict(max_paths=40000, budget_s=900), 'thorough': dict(max_paths=400000, budget_s=1500)}


def body(I, case):
    if case.get('kind') == 'fp-ratio':
        return body_fp_ratio(I, case)
    if case.get('symdie'):
        g = [I.real(f'g{k}', 0.01, 30) for k in range(3)]
    else:
        g = [4.0, 3.0, 5.0]
    b1, b2 = g[0], g[0] + g[1]
    W = b2 + g[2]
    mods = {}
    shapes = {}  # module -> list of boxes (the harness's own record)
    fixed_boxes = []
    regions = []
    reg = case['die'].get('region')
    if reg is not None:
        lo, hi = BANDS[reg[1]]
        spec = [(b1 + b2) / 2, (lo + hi) / 2.0, b2 - b1, float(hi - lo)]
        if reg[0] == 'fixed2':   # a fixed module made of two separate rectangles (lower and upper band of the same columns)
            lo2, hi2 = BANDS['upper']
            spec2 = [(b1 + b2) / 2, (lo2 + hi2) / 2.0, b2 - b1, float(hi2 - lo2)]
            mods['FX'] = {'fixed': True, 'rectangles': [spec, spec2]}
            fixed_boxes += [geo.box(*spec), geo.box(*spec2)]
            shapes['FX'] = [geo.box(*spec), geo.box(*spec2)]
        elif reg[0] == 'fixed':
            mods['FX'] = {'fixed': True, 'rectangles': [spec]}
            fixed_boxes.append(geo.box(*spec))
            shapes['FX'] = [geo.box(*spec)]
        else:
            regions.append(spec + [reg[0]])
    for i, kind in enumerate(case['mods']):
        name = f'M{i}'
        conc = case.get('symdie') or case.get('moved') or (case.get('symmod') is not None and case['symmod'] != i)
        cx = I.real(f'x{i}', 0, 65) if not conc else [2.0, 6.5, 9.25][i % 3]
        yb = [(0.5, 1.5), (2.0, 3.0)][i % 2]
        if kind == 'soft0':
            area = case.get('area', 2.25)
            cy = [1.0, 3.5][i % 2]
            mods[name] = {'area': area, 'center': [cx, cy]}
            s = area ** 0.5
            shapes[name] = [geo.box(cx, cy, s, s)]
        else:
            w = I.real(f'w{i}', 0.05, 20) if not conc else 3.0
            r0 = [cx, (yb[0] + yb[1]) / 2, w, yb[1] - yb[0]]
            rects = [r0]
            if kind in ('soft2', 'hard2'):
                w2 = I.real(f'v{i}', 0.05, 10) if not conc else 1.5
                rects.append([cx + w / 2 + w2 / 2, yb[0] + 0.25, w2, 0.5])
            if kind.startswith('soft'):
                mods[name] = {'area': I.real(f'a{i}', 0.01, 100), 'rectangles': rects}
            else:
                mods[name] = {'hard': True, 'rectangles': rects}
            shapes[name] = [geo.box(*r) for r in rects]
    try:
        net = Netlist({'Modules': mods})
    except AssertionError as e:
        I.discard(f'netlist rejected: {e}')
    tree = {'width': W, 'height': H}
    if regions:
        tree['regions'] = regions
    try:
        die = Die(tree, net)
    except AssertionError as e:
        I.discard(f'die rejects: {e}')
    if case['die'].get('split'):
        die.split_refinable_regions(2.0, case['die']['split'])
    refinable, fixed = die.floorplanning_rectangles()
    ref_boxes = [geo.rbox(r) for r in refinable]
    if case.get('moved'):
        try:
            create_initial_allocation(die, bool(case['zero']))   # first allocation (creates the default squares, reads all geometry)
        except ZeroDivisionError:
            pass
        for i, kind in enumerate(case['mods']):
            name = f'M{i}'
            m = net.get_module(name)
            dx = I.real(f'dx{i}', -12, 60) if case['symmod'] == i else 0.75
            if kind == 'soft0':
                m.center.x += dx                       # tools/force style: the centre point is updated in place
            elif kind.startswith('hard'):
                m.center = Point(m.center.x + dx, m.center.y)
                m.recenter_rectangles()                # tools/spectral, tools/glbfloor style
            else:
                for r in m.rectangles:
                    r.center.x += dx
            shapes[name] = [(b[0] + dx, b[1], b[2] + dx, b[3]) for b in shapes[name]]
        I.reached('moved')
    try:
        al = create_initial_allocation(die, bool(case['zero']))
    except ZeroDivisionError:
        # a module with zero total allocated area cannot be represented: excluded by the property's precondition
        touches = And(*[Or(*[geo.ovl_area(cb, sb) > 0 for cb in ref_boxes for sb in shapes[m]]) for m in shapes if m != 'FX'])
        I.prove('ZeroDivision-only-when-some-module-touches-no-cell', Not(touches))
        return
    except AssertionError as e:
        I.detail = f"raised: {e}"
        I.prove('initial-allocation-succeeds', False)
        return
    I.reached('allocated')
    cells = al.allocations
    I.prove('cells-are-the-floorplanning-rectangles', len(cells) == len(refinable) + len(fixed))
    seen_fixed = 0
    for a in cells:
        cb = geo.rbox(a.rect)
        carea = (cb[2] - cb[0]) * (cb[3] - cb[1])
        is_fixed_cell = I.pick([And(*[Eq(u, v) for u, v in zip(cb, fb)]) for fb in fixed_boxes]) >= 0
        if is_fixed_cell:
            seen_fixed += 1
            I.prove('fixed-module-fully-owns-its-cell', list(a.alloc.keys()) == ['FX'] and Eq(a.alloc['FX'], 1) and a.rect.fixed)
            continue
        I.prove('refinable-cell-is-a-die-region', Or(*[And(*[Eq(u, v) for u, v in zip(cb, rb)]) for rb in ref_boxes]))
        I.prove('fixed-module-nowhere-else', 'FX' not in a.alloc or Eq(a.alloc['FX'], 0))
        for m, boxes in shapes.items():
            if m == 'FX':
                continue
            ov = sum([geo.ovl_area(cb, sb) for sb in boxes], 0)
            if m in a.alloc:
                I.prove('ratio-times-cell-area-equals-overlap', Eq(a.alloc[m] * carea, ov))
                I.prove('listed-only-if-it-covers-part-of-the-cell', True if case['zero'] else ov > 0)
            else:
                I.prove('unlisted-only-if-no-overlap', (not case['zero']) and ov <= 0 if not symx.is_sym(ov) else And(not case['zero'], ov <= 0))
    I.prove('every-fixed-cell-present', seen_fixed == len(fixed_boxes))
    for m, boxes in shapes.items():
        if m == 'FX':
            continue
        want = sum([geo.ovl_area(cb, sb) for cb in ref_boxes + fixed_boxes for sb in boxes], 0)
        # area allocated to the module = area of its shape lying on refinable cells (fixed cells are owned by FX only)
        want_ref = sum([geo.ovl_area(cb, sb) for cb in ref_boxes for sb in boxes], 0)
        try:
            got = al.area(m)
        except KeyError:
            I.prove('module-absent-only-if-it-touches-no-refinable-cell', want_ref <= 0)
            continue
        I.prove('allocated-area-equals-shape-on-refinable-cells', Eq(got, want_ref))
    I.observe('ncells', len(cells))
