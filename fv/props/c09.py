"""C09 -- the legaliser's constraint system admits exactly the legal floorplans."""
from fractions import Fraction
from fv import symx, shimall
from fv.symx import And, Or, Not, Eq, Implies, Iff, Abs, Max
from frame.netlist.netlist import Netlist
from frame.geometry.geometry import Rectangle
import tools.legalfloor.legalfloor as LF
import tools.legalfloor.expression_tree as ET
import tools.legalfloor.model as MD

PID = 'C09'
FUNCTIONS = ['netlist_to_utils', 'Model.__init__', 'Model.first_build_model', 'Model.define_time', 'Model.time_advance', 'Model.define_module',
             'Model.add_rect', 'Model.fix', 'Model.build_model', 'ModelModule._define_vars', 'ModelModule.add_rect_north/south/east/west',
             'ModelModule.get_constraints', 'ModelWrapper.add_constraint/fix_variable/build_model/force_step', 'smax', 'thin',
             'ExpressionTree operators/evaluate/assign', 'Equation.is_equation_met']
BOUNDS = {'quick': '19 netlist structures (hard N+E, fixed S+W, hard N+S+E+W, hard N+N and fixed E+E listed against the geometric order; soft 1 rect; trunk+N; trunk+N+N; trunk+E+W; trunk+W+W; trunk+E+E; trunk+S+S; trunk+S; hard 1 and 2 rectangles with fractional '
                   'and integer-typed coordinates; fixed; soft+soft; hard+soft) on die 10x8, aspect-ratio limit 2; every rectangle position '
                   'and size of the configuration symbolic (x,y in [-5,W+5], w,h in [0.1,30])',
          'thorough': 'additionally die 20x20 and limits 1.5, 3'}
STUBS = ['GEKKO objects are only constructed (no solve); print silenced']
CUTS = ['inter-module overlap, direction violated=>not met: deep overlap => t1,t2 <= -c (c = 0.1*(10 tau+0.02) > tau), a,b <= -c => smax(a,b,tau) < -1e-6 on the real smax, and equation met <=> smax(t1,t2,tau) >= -1e-6', 'inter-module overlap, direction legal=>met: separated => t1>=0 or t2>=0 (on the subtrees of the real equation), and '
        'a>=0 or b>=0 => smax(a,b,tau) >= -1e-6 on the real smax with fresh a,b']
ASSUMPTIONS = ['R model; time advanced until the annealed slack evaluates to 0, so the tolerance left is the documented 1e-6',
               'legal: every clause holds with margin 1e-3; illegal: exactly one clause violated by >= 1e-3 (inter-module overlap: by '
               '>= 10*tau+0.02 in both axes, the documented smoothing)', 'netlist constants concrete per structure']
NOT_DECIDED = ['symbolic netlist constants', 'groups radius / Exact Value (solver step control)', 'turn_off_rects / fuse_rects',
               'the optimiser trajectory']
MUST_REACH = ['model']
MARGIN = Fraction(1, 1000)


def setup():
    shimall.install_frame()
    for mod in (LF, ET, MD):
        symx.install(mod)
    ET.math_sqrt = symx.MATH.sqrt
    MD.math_sqrt = symx.MATH.sqrt
    LF.print = lambda *a, **k: None
    ET.print = lambda *a, **k: None
    MD.print = lambda *a, **k: None


def reset():
    symx.ALLOW_STR = True
    shimall.reset_epsilon()
    ET.named_variables.clear()
    ET.debug_print = 0


NETS = {
    'soft1': {'A': {'area': 4.0, 'rectangles': [[3.0, 2.0, 2.0, 2.0]]}},
    'softN': {'A': {'area': 5.0, 'rectangles': [[3.0, 2.0, 2.0, 2.0], [3.0, 3.5, 1.0, 1.0]]}},
    'softNN': {'A': {'area': 9.5, 'rectangles': [[4.0, 2.0, 4.0, 2.0], [2.75, 3.5, 1.0, 1.0], [5.0, 3.25, 1.0, 0.5]]}},
    'softEW': {'A': {'area': 6.0, 'rectangles': [[4.0, 3.0, 2.0, 2.0], [5.5, 3.0, 1.0, 1.0], [2.5, 2.5, 1.0, 1.0]]}},
    'softWW': {'A': {'area': 29.0, 'rectangles': [[6.0, 4.0, 4.0, 6.0], [3.5, 2.0, 1.0, 1.0], [3.0, 5.0, 2.0, 2.0]]}},
    'softEE': {'A': {'area': 29.0, 'rectangles': [[3.0, 4.0, 4.0, 6.0], [5.5, 2.0, 1.0, 1.0], [6.0, 5.0, 2.0, 2.0]]}},
    'softSS': {'A': {'area': 29.0, 'rectangles': [[5.0, 5.0, 6.0, 4.0], [3.0, 2.5, 1.0, 1.0], [6.0, 2.0, 2.0, 2.0]]}},
    'softS': {'A': {'area': 5.0, 'rectangles': [[3.0, 4.0, 2.0, 2.0], [3.0, 2.5, 1.0, 1.0]]}},
    'hard1': {'A': {'hard': True, 'rectangles': [[3.0, 2.0, 2.0, 3.0]]}},
    'hard2': {'A': {'hard': True, 'rectangles': [[6.25, 2.5, 2.5, 2.0], [8.0, 2.25, 1.0, 1.5]]}},
    'hard2int': {'A': {'hard': True, 'rectangles': [[3, 2, 2, 2], [3, 4, 2, 2]]}},
    'fixed1': {'A': {'fixed': True, 'rectangles': [[3.0, 2.0, 2.0, 3.0]]}},
    # hard / fixed modules with branches on two, two and four different sides of the trunk (branches of different sizes)
    'hardNE': {'A': {'hard': True, 'rectangles': [[4.0, 3.0, 2.0, 2.0], [4.0, 4.5, 1.0, 1.0], [5.5, 3.0, 1.0, 1.5]]}},
    'fixedSW': {'A': {'fixed': True, 'rectangles': [[5.0, 4.0, 2.0, 2.0], [5.0, 2.5, 1.0, 1.0], [3.5, 4.0, 1.0, 0.5]]}},
    # two branches on the same side listed right-before-left / top-before-bottom (listing order differs from geometric order)
    'hardNNrev': {'A': {'hard': True, 'rectangles': [[4.0, 3.0, 4.0, 2.0], [5.25, 4.5, 1.0, 1.0], [2.75, 4.25, 1.5, 0.5]]}},
    'fixedEErev': {'A': {'fixed': True, 'rectangles': [[4.0, 4.0, 2.0, 4.0], [5.5, 5.25, 1.0, 1.0], [5.25, 2.75, 0.5, 1.5]]}},
    'hardNSEW': {'A': {'hard': True, 'rectangles': [[5.0, 4.0, 2.0, 2.0], [5.0, 5.5, 1.0, 1.0], [4.75, 2.75, 1.5, 0.5],
                                                    [6.25, 4.0, 0.5, 1.0], [3.5, 4.25, 1.0, 1.5]]}},
    'pair': {'A': {'area': 4.0, 'rectangles': [[2.0, 2.0, 2.0, 2.0]]}, 'B': {'area': 3.0, 'rectangles': [[6.0, 5.0, 2.0, 1.5]]}},
    'hardsoft': {'A': {'hard': True, 'rectangles': [[6.25, 2.5, 2.5, 2.0], [8.0, 2.25, 1.0, 1.5]]},
                 'B': {'area': 4.0, 'rectangles': [[2.0, 5.0, 2.0, 2.0]]}},
}


def cases(tier):
    cs = []
    dies = [(10.0, 8.0, 2.0)] if tier == 'quick' else [(10.0, 8.0, 2.0), (20.0, 20.0, 1.5), (10.0, 8.0, 3.0)]
    for (W, H, r) in dies:
        for name in NETS:
            cs.append(dict(net=name, W=W, H=H, r=r))
    return cs


OPTS = {'quick': dict(max_paths=2000, timeout_ms=30000), 'thorough': dict(max_paths=2000, timeout_ms=180000)}


def met(I, eq):
    """truth value of the real Equation.is_equation_met() at the current (symbolic) configuration, without forking the harness"""
    if I.mode == 'symbolic':
        return symx.SymBool(symx.summarize(lambda: eq.is_equation_met()))
    return bool(eq.is_equation_met())


def body(I, case):
    W, H, r = case['W'], case['H'], case['r']
    mods = NETS[case['net']]
    names = list(mods)
    tree = {'Modules': mods, 'Nets': [names] if len(names) > 1 else []}
    net = Netlist(tree)
    ml, al, xl, yl, wl, hl, hyper, og = LF.netlist_to_utils(net)
    m = LF.Model(ml, al, xl, yl, wl, hl, W, H, hyper, r, og, 0.9, 0.3, 1)
    m.time_advance(200)
    I.reached('model')
    groups = {}
    for g, eqs in list(m.gekko.constraints.items()) + list(m.gekko.macro_constraints.items()):
        if g in ('radius', 'Exact Value'):
            continue
        groups.setdefault(g, []).extend(eqs)
    # ---- (input) the netlist's own, legal, configuration satisfies every equation (concrete evaluation of the real code)
    input_legal = all(max(w / h, h / w) <= r and x - w / 2 >= 0 and y - h / 2 >= 0 and x + w / 2 <= W and y + h / 2 <= H
                      for mod in mods.values() for (x, y, w, h) in [tuple(q[:4]) for q in mod['rectangles']])
    for g, eqs in groups.items():
        for e in eqs:
            if input_legal:  # "the input configuration of an already legal floorplan satisfies it"
                I.prove(f'input-configuration-satisfies:{g}', bool(e.is_equation_met()))
    # ---- the original shapes, in model order (trunk first, then N, S, E, W branches as netlist_to_utils lists them)
    orig = []
    for mi, (trunk, Nb, Sb, Eb, Wb) in enumerate(ml):
        rects = [('T', trunk)] + [('N', b) for b in Nb] + [('S', b) for b in Sb] + [('E', b) for b in Eb] + [('W', b) for b in Wb]
        orig.append(rects)
    # ---- symbolic configuration
    cfg = []
    for mi, rects in enumerate(orig):
        row = []
        for ri, _ in enumerate(rects):
            x = I.real(f'x{mi}_{ri}', -5, W + 5)
            y = I.real(f'y{mi}_{ri}', -5, H + 5)
            w = I.real(f'w{mi}_{ri}', 0.1, 30)
            h = I.real(f'h{mi}_{ri}', 0.1, 30)
            m.x[mi][ri].assign(x)
            m.y[mi][ri].assign(y)
            m.w[mi][ri].assign(w)
            m.h[mi][ri].assign(h)
            row.append((x, y, w, h))
        cfg.append(row)
    mu = MARGIN if I.mode == 'symbolic' else 1e-3
    tau = 0.01 * min(W, H) / len(ml)
    kinds = [('fixed' if net.modules[i].is_fixed else 'hard' if net.modules[i].is_hard else 'soft') for i in range(len(ml))]
    # ---- independent legality clauses: name -> (holds with margin, violated by margin, equation group(s) responsible)
    clauses = []
    for mi, rects in enumerate(orig):
        tx, ty, tw, th = cfg[mi][0]
        side_lists = {'N': [], 'S': [], 'E': [], 'W': []}
        for ri, (role, ob) in enumerate(rects):
            x, y, w, h = cfg[mi][ri]
            clauses.append((f'inside-die[{mi},{ri}]',
                            And(x - w / 2 >= mu, y - h / 2 >= mu, x + w / 2 <= W - mu, y + h / 2 <= H - mu),
                            Or(x - w / 2 <= -mu, y - h / 2 <= -mu, x + w / 2 >= W + mu, y + h / 2 >= H + mu), ['Bounds']))
            rr = Fraction(r) if I.mode == 'symbolic' else r
            clauses.append((f'aspect-ratio[{mi},{ri}]', And(w <= (rr - mu) * h, h <= (rr - mu) * w),
                            Or(w >= (rr + mu * 10) * h, h >= (rr + mu * 10) * w), ['Shapes']))
            if role != 'T':
                side_lists[role].append(ri)
                if role in 'NS':
                    att = (y - h / 2) - (ty + th / 2) if role == 'N' else (ty - th / 2) - (y + h / 2)
                    lo, hi = (x - w / 2) - (tx - tw / 2), (tx + tw / 2) - (x + w / 2)
                else:
                    att = (x - w / 2) - (tx + tw / 2) if role == 'E' else (tx - tw / 2) - (x + w / 2)
                    lo, hi = (y - h / 2) - (ty - th / 2), (ty + th / 2) - (y + h / 2)
                clauses.append((f'attached[{mi},{ri}]', And(Eq(att, 0), lo >= mu, hi >= mu),
                                Or(att >= mu, att <= -mu, lo <= -mu, hi <= -mu), ['Attach']))
            if kinds[mi] in ('hard', 'fixed'):
                clauses.append((f'congruent[{mi},{ri}]',
                                And(Eq(w, ob[2]), Eq(h, ob[3]), Eq(x - tx, ob[0] - rects[0][1][0]), Eq(y - ty, ob[1] - rects[0][1][1])),
                                Or(Abs(w - ob[2]) >= mu, Abs(h - ob[3]) >= mu, Abs((x - tx) - (ob[0] - rects[0][1][0])) >= mu,
                                   Abs((y - ty) - (ob[1] - rects[0][1][1])) >= mu), ['Fix']))
            if kinds[mi] == 'fixed' and ri == 0:
                clauses.append((f'fixed-in-place[{mi}]', And(Eq(x, ob[0]), Eq(y, ob[1])),
                                Or(Abs(x - ob[0]) >= mu, Abs(y - ob[1]) >= mu), ['Fix']))
        for role, lst in side_lists.items():
            axis = 0 if role in 'NS' else 1
            lst = sorted(lst, key=lambda ri: rects[ri][1][axis])
            for a, b in zip(lst, lst[1:]):
                pa, sa = cfg[mi][a][axis], cfg[mi][a][2 + axis]
                pb, sb = cfg[mi][b][axis], cfg[mi][b][2 + axis]
                gap = (pb - sb / 2) - (pa + sa / 2)
                clauses.append((f'ordered-no-overlap[{mi},{a},{b}]', gap >= mu, gap <= -mu, ['Intra']))
        if kinds[mi] == 'soft':
            area = sum([w * h for (x, y, w, h) in cfg[mi]], 0)
            clauses.append((f'area[{mi}]', area >= al[mi] + mu, area <= al[mi] - mu, ['Area']))
    inter = []
    for mi in range(len(orig)):
        for ni in range(mi + 1, len(orig)):
            for ri, a in enumerate(cfg[mi]):
                for rj, b in enumerate(cfg[ni]):
                    dx, dy = Abs(a[0] - b[0]), Abs(a[1] - b[1])
                    sx, sy = (a[2] + b[2]) / 2, (a[3] + b[3]) / 2
                    deep = 10 * tau + 0.02
                    inter.append(((mi, ni, ri, rj), Or(dx >= sx + mu, dy >= sy + mu), And(dx <= sx - deep, dy <= sy - deep), (dx >= sx + mu, dy >= sy + mu)))
    legal = And(*[c[1] for c in clauses], *[c[1] for c in inter])
    TOL = Fraction(1e-6) if I.mode == 'symbolic' else 1e-6  # the code's own binary64 literal
    # ---- (=>) a legal configuration satisfies every equation
    for g, eqs in groups.items():
        if g == 'Inter':
            continue
        for e in eqs:
            I.prove(f'legal=>met:{g}', Implies(legal, met(I, e)))
    for key, sep, _, (sepx, sepy) in inter:
        e = m.inter_eqs[key]
        t1 = e.lhs.value[1].value[0].value[0].evaluate()
        t2 = e.lhs.value[1].value[0].value[1].evaluate()
        I.prove('legal=>met:Inter(cut1: separated => t1>=0 or t2>=0)', Implies(sepx, t1 >= 0))
        I.prove('legal=>met:Inter(cut1: separated => t1>=0 or t2>=0)', Implies(sepy, t2 >= 0))
        half = Fraction(1, 2) if I.mode == 'symbolic' else 0.5
        ev = e.lhs.evaluate()
        if I.mode == 'symbolic':
            want = half * (t1 + t2 + symx.sym_sqrt((t1 - t2) * (t1 - t2) + (4.0 * tau) * tau))
        else:
            want = 0.5 * (t1 + t2 + ((t1 - t2) ** 2 + (4.0 * tau) * tau) ** 0.5)
        I.prove('legal=>met:Inter(equation is smax(t1,t2,tau) >= 0)', And(Eq(ev, want), e.cmp == ET.Cmp.GE, Eq(e.rhs.evaluate(), 0)))
    if inter:
        g0 = m.gekko.gekko
        av = ET.ExpressionTree.create_variable(g0, 0.0, -1e9, 1e9, name='cut_a')
        bv = ET.ExpressionTree.create_variable(g0, 0.0, -1e9, 1e9, name='cut_b')
        a, b = I.real('cut_a', -10**6, 10**6), I.real('cut_b', -10**6, 10**6)
        av.assign(a)
        bv.assign(b)
        sv = LF.smax(av, bv, m.tau).evaluate()
        I.prove('legal=>met:Inter(cut2: a>=0 or b>=0 => smax>=-1e-6, real smax)', Implies(Or(a >= 0, b >= 0), sv >= -TOL), side=True)
    # ---- (<=) a configuration violating one clause by a clear margin falsifies some equation of the responsible group
    for name, _, viol, gs in clauses:
        eqs = [e for g in gs for e in groups.get(g, [])]
        idx = name[name.index('['):] if '[' in name else ''
        if gs[0] in ('Bounds', 'Shapes'):  # these equations carry [module,rect] in their names: keep the ones of this rectangle
            eqs = [e for e in eqs if e.name.endswith(idx)]
        allmet = And(*[met(I, e) for e in eqs]) if eqs else True
        I.prove(f'violated=>not-all-met:{name.split("[")[0]}', Not(And(viol, allmet)))
    tol = TOL
    cdeep = 0.1 * (10 * tau + 0.02)
    for key, _, deep, _s in inter:
        e = m.inter_eqs[key]
        t1 = e.lhs.value[1].value[0].value[0].evaluate()
        t2 = e.lhs.value[1].value[0].value[1].evaluate()
        ev = e.lhs.evaluate()
        I.prove('violated=>not-all-met:Inter(equation met <=> smax >= -1e-6)', Iff(met(I, e), ev >= -tol))
        I.prove('violated=>not-all-met:Inter(cut3: deep overlap => t1,t2 <= -c)', Implies(deep, And(t1 <= -cdeep, t2 <= -cdeep)))
    if inter:
        I.prove('violated=>not-all-met:Inter(cut4: a,b <= -c => smax < -1e-6, real smax)', Implies(And(a <= -cdeep, b <= -cdeep), sv < -tol), side=True)
    I.observe('nclauses', len(clauses) + len(inter))
