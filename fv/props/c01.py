"""C01 -- die decomposition is an exact tiling of the die."""
import itertools
from fv import symx, shimall
import frame.die.die as _DIE
from fv.symx import And, Or, Not, Eq, Implies, Iff, Count
from fv import geo
from frame.geometry.geometry import Rectangle
from frame.die.die import Die
from frame.netlist.netlist import Netlist

PID = 'C01'
FUNCTIONS = ['Die.__init__', 'parse_yaml_die', 'parse_die_rectangle', 'gather_boundaries', 'Die._calculate_cell_matrix',
             '_cell_center', '_calculate_ground_rectangles', '_find_all_ground_rectangles', '_expand_rectangle',
             '_find_best_rectangle', '_check_rectangles', 'Rectangle.point_inside/overlap/area_overlap/bounding_box',
             'Netlist.__init__/fixed_rectangles (fixed regions)', 'parse_yaml_netlist/module/rectangles', 'Module.setup']
H = 4
DELTA = 0.01
BOUNDS = {'quick': 'die height 4 (then transposed: width 4), die extent on the other axis and all region boundaries on that axis '
                   'symbolic breakpoints 0<b1<...<W (gaps in [0.01,250]); k<=1 region on 16 placements x 3 kinds (blockage, '
                   'specialised, fixed module) and k=2 regions on 14 placements with <=3 breakpoints; k=3 regions at concrete places in all 60 mixed orders of the tags #/dsp/bram/fixed; region lists of every length 4..8 at concrete places (20 cases); bands from {full, lower, middle, upper, lower half, upper half}; '
                   'negative harness: one region sticking out, two regions overlapping; binary64 kernel: decimal coordinates n/10, n/100 with n < 2^8 (2^10 thorough)',
          'thorough': 'k=2 on all generated placements over <=3 breakpoints (3 tag pairs) and a sample of the placements over 4 breakpoints (two band pairs); k=3 symbolic on 2 stacked/side-by-side placements (<= 4 breakpoints); decimal kernel with n < 2^10 (steps 0.1 and 0.01)'}
ASSUMPTIONS = ['R model; tolerances preset 1e-10/1e-5; distinct boundary coordinates differ by >= 0.01',
               'one axis symbolic at a time']
NOT_DECIDED = ['binary64 rounding beyond the inside test of decimal coordinates n/10, n/100 (the fp-border kernel runs the real Die._check_rectangles inside test on z3 FloatingPoint terms)', 'both axes symbolic at once',
               'more than 3 regions', 'the "<w>x<h>" string form and YAML text']
MUST_REACH = ['accepted', 'rejected-invalid', 'fp-border']
BANDS = {'full': (0, 4), 'lower': (0, 1), 'middle': (1, 3), 'upper': (3, 4), 'lowhalf': (0, 2), 'uphalf': (2, 4)}
KINDS = ['#', 'dsp', 'fixed']


def setup():
    shimall.install_frame()


def reset():
    symx.ALLOW_STR = True
    shimall.reset_epsilon()


def overlap_1d(a, b):
    return max(a[0], b[0]) < min(a[1], b[1])


def gen_placements(k, nb):
    """regions as (i, j, band): spans breakpoints [b_i, b_j] (b_0 = 0, b_nb = W)"""
    ivs = [(i, j) for i in range(nb) for j in range(i + 1, nb + 1)]
    out = []
    for combo in itertools.product(ivs, repeat=k):
        used = sorted(set(x for iv in combo for x in iv) | {0, nb})
        if used != list(range(nb + 1)):
            continue  # every breakpoint must be used (canonical)
        out.append(combo)
    return out


def cases(tier):
    cs = []
    # k = 0
    for tr in (0, 1):
        cs.append(dict(kind='valid', nb=1, regions=[], transposed=tr))
    # k = 1 : placements relative to the die border x bands x kinds
    for nb, iv in ((1, (0, 1)), (2, (0, 1)), (2, (1, 2)), (3, (1, 2))):
        for band in ('full', 'lower', 'middle', 'upper'):
            for kind in KINDS:
                for tr in (0, 1):
                    cs.append(dict(kind='valid', nb=nb, regions=[[iv[0], iv[1], band, kind]], transposed=tr))
    # k = 2
    pairs = []
    for nb in (2, 3, 4):
        for (a, b) in gen_placements(2, nb):
            if a > b:
                continue
            for ba, bb in (('lower', 'upper'), ('lowhalf', 'uphalf'), ('full', 'full'), ('lowhalf', 'lower'), ('middle', 'full')):
                xo = overlap_1d(a, b)
                yo = overlap_1d(BANDS[ba], BANDS[bb])
                pairs.append((nb, a, b, ba, bb, xo and yo))
    valid2 = [p for p in pairs if not p[5]]
    bad2 = [p for p in pairs if p[5]]
    if tier == 'quick':
        valid2 = [p for p in valid2 if p[0] <= 3]
        bad2 = [p for p in bad2 if p[0] <= 3]
        valid2 = valid2[::max(1, len(valid2) // 14)][:14]
        bad2 = bad2[::max(1, len(bad2) // 6)][:6]
    kinds2 = [('#', 'dsp'), ('fixed', '#'), ('dsp', 'fixed')]
    if tier != 'quick':
        # every placement on <= 3 breakpoints, every 4th placement on 4 breakpoints (these cost 4-25 min of solver time each)
        valid2 = [p for p in valid2 if p[0] <= 3] + [p for p in valid2 if p[0] == 4 and (p[3], p[4]) in (('lower', 'upper'), ('full', 'full'))][::4]
    for n_, (nb, a, b, ba, bb, _) in enumerate(valid2):
        ks = [kinds2[n_ % len(kinds2)]] if (tier == 'quick' or nb >= 4) else kinds2
        for (ka, kb) in ks:
            for tr in (0, 1):
                cs.append(dict(kind='valid', nb=nb, regions=[[a[0], a[1], ba, ka], [b[0], b[1], bb, kb]], transposed=tr))
    for n_, (nb, a, b, ba, bb, _) in enumerate(bad2):
        ka, kb = kinds2[n_ % len(kinds2)]
        cs.append(dict(kind='overlap', nb=nb, regions=[[a[0], a[1], ba, ka], [b[0], b[1], bb, kb]], transposed=n_ % 2))
    # three regions in every order of tags (concrete geometry: the order of the region list is what varies)
    for tags in itertools.product(['#', 'dsp', 'bram', 'fixed'], repeat=3):
        if len(set(tags)) < 2:
            continue
        cs.append(dict(kind='valid', nb=6, gaps=[1.0, 2.0, 0.5, 1.5, 1.0, 2.0], transposed=len(cs) % 2,
                       regions=[[0, 1, 'lower', tags[0]], [2, 3, 'full', tags[1]], [4, 6, 'upper', tags[2]]]))
    # region lists of every length 4..8 (concrete geometry: the length and the last tag of the list are what vary)
    for n in range(4, 9):
        for last in ('#', 'dsp'):
            for with_fixed in (0, 1):
                tg = ['dsp', '#', 'bram']
                regs = [[2 * i, 2 * i + 1, ('lower', 'full', 'upper')[i % 3], (tg[i % 3] if i < n - 1 else last)] for i in range(n)]
                if with_fixed:
                    regs.insert(1, [2 * n, 2 * n + 1, 'middle', 'fixed'])
                cs.append(dict(kind='valid', nb=2 * n + 2, gaps=[1.0, 2.0, 0.5, 1.5] * ((2 * n + 5) // 4), transposed=(n + with_fixed) % 2, regions=regs))
    # the attached netlist has terminals (modules without any geometry), alone or next to a fixed module, and the tolerances are the
    # design's own (undefined before the load): concrete geometry
    for regs in ([], [[0, 1, 'lower', 'dsp']], [[0, 1, 'lower', 'dsp'], [2, 3, 'full', '#']], [[1, 2, 'middle', 'fixed'], [3, 4, 'upper', 'bram']]):
        for tr in (0, 1):
            cs.append(dict(kind='valid', nb=4, gaps=[1.0, 2.0, 0.5, 1.5], transposed=tr, regions=regs, own_eps=True, netlist='terminals'))
    cs.append(dict(kind='overlap', nb=4, gaps=[1.0, 2.0, 0.5, 1.5], transposed=0, own_eps=True, netlist='terminals',
                   regions=[[0, 2, 'lower', 'dsp'], [1, 3, 'full', '#']]))
    # one region sticking out of the die
    for band in ('full', 'lower'):
        for kind in KINDS:
            for tr in (0, 1):
                cs.append(dict(kind='outside', nb=2, regions=[[1, 2, band, kind]], transposed=tr))
    cs.append(dict(kind='outside-band', nb=2, regions=[[0, 1, 'lower', '#']], transposed=0))
    # binary64 kernel: decimal coordinates (n/10, n/100) touching the die border
    for axis in ('x', 'y'):
        for bits, scale in ((8, 10), (8, 100)) if tier == 'quick' else ((10, 10), (10, 100)):
            cs.append(dict(kind='fp-border', axis=axis, bits=bits, scale=scale, slow=(500 if tier == 'quick' else 1500)))
    if tier == 'thorough':
        for nb, regs in ((4, [(0, 1), (1, 2), (3, 4)]), (3, [(0, 3), (1, 2), (1, 2)])):   # (a 5-breakpoint placement did not finish in 40 min per case)
            for bands in (('lower', 'middle', 'upper'), ('lowhalf', 'uphalf', 'uphalf'), ('full', 'full', 'full')):
                ok = all(not (overlap_1d(regs[i], regs[j]) and overlap_1d(BANDS[bands[i]], BANDS[bands[j]]))
                         for i in range(3) for j in range(i + 1, 3))
                if ok:
                    for tr in (0, 1):
                        cs.append(dict(kind='valid', nb=nb, transposed=tr,
                                       regions=[[r[0], r[1], b, k] for r, b, k in zip(regs, bands, ('#', 'dsp', 'fixed'))]))
    return cs


OPTS = {'quick': dict(max_paths=30000, budget_s=900), 'thorough': dict(max_paths=300000, budget_s=3600)}


def ctx_class(case):
    if case['kind'] == 'fp-border':
        from fv import symf
        return symf.FCtx
    return None


def body_fp_border(I, case):
    """binary64: a region with decimal coordinates that is mathematically inside the die (possibly touching its border) must not be
    judged outside by the real inside test of Die._check_rectangles"""
    import types
    from frame.die.yaml_parse_die import parse_die_rectangle
    from frame.geometry.geometry import Point, Shape
    bits, scale = case['bits'], case['scale']
    if I.mode == 'symbolic':
        from fv import symf
        symf.FCtx.slow_s = case.get('slow', 200)
    a, W = I.decimal('a', bits, scale)
    b, x = I.decimal('b', bits, scale)
    c, w = I.decimal('c', bits, scale)
    if I.mode == 'symbolic':
        import z3
        ze = lambda v: z3.ZeroExt(4, v)
        I.assume(symx.SymBool(z3.And(z3.ULE(2 * ze(b) + ze(c), 2 * ze(a)), z3.UGE(2 * ze(b), ze(c)), z3.UGT(c, 0), z3.UGT(a, 0))))
    else:
        I.assume(2 * b + c <= 2 * a and 2 * b >= c and c > 0 and a > 0)
    other = 1.0
    if case['axis'] == 'x':
        region = parse_die_rectangle([x, other / 2, w, other, '#'])
        width, height = W, other
    else:
        region = parse_die_rectangle([other / 2, x, other, w, '#'])
        width, height = other, W
    if I.mode == 'symbolic':
        eps = symx.sym_min(width, height) * 10e-12
    else:
        eps = min(width, height) * 10e-12
    fake = types.SimpleNamespace(specialized_regions=[], ground_regions=[], blockages=[region], fixed_regions=[], width=width, height=height,
                                 _epsilon=eps)
    I.reached('fp-border')
    try:
        Die._check_rectangles(fake)
    except AssertionError as e:
        if str(e).startswith('Some rectangle'):
            I.detail = 'a region inside the die was judged outside'
            I.prove('decimal-region-inside-die-not-judged-outside', False)
            return
    I.prove('decimal-region-inside-die-not-judged-outside', True)


def body_decimal_netlist(I, case):
    """a die with decimal coordinates (computed in real binary64: its area sum carries round-off) and an attached netlist whose fixed
    macro has a symbolic size and position; first thing in the process (tolerances undefined): the valid description must be accepted"""
    Rectangle.undefine_epsilon()
    d = case['die']
    s_ = I.real('macro_w', 0.5, 20)
    x = I.real('macro_x', 60, 150)
    net = Netlist({'Modules': {'F': {'fixed': True, 'rectangles': [[x, 20.0, s_, 3.0]]}}})
    try:
        die = Die(dict(width=d['width'], height=d['height'], regions=[list(r) for r in d['regions']]), net)
    except AssertionError as e:
        I.detail = f'rejected: {e}'
        I.prove('valid-decimal-description-with-netlist-accepted', False, side=True)
        return
    I.reached('accepted')
    I.prove('fixed-region-reported', len(die.fixed_regions) == 1 and len(die.blockages) + len(die.specialized_regions) == len(d['regions']))


def body(I, case):
    if case['kind'] == 'fp-border':
        return body_fp_border(I, case)
    if case['kind'] == 'decimal-netlist':
        return body_decimal_netlist(I, case)
    nb = case['nb']
    tr = case['transposed']
    if case.get('own_eps'):
        Rectangle.undefine_epsilon()   # no tolerance inherited: the design defines its own
    b = [0.0]
    for k in range(nb):
        b.append(b[-1] + (I.real(f'g{k}', DELTA, 250) if 'gaps' not in case else case['gaps'][k]))
    W = b[-1]
    extra = 0
    if case['kind'] == 'outside':
        extra = I.real('out', DELTA, 10)  # the region's far edge lies beyond the die border by `out`
    regions, fixed_rects, inputs = [], [], []
    for (i, j, band, kind) in case['regions']:
        lo, hi = BANDS[band]
        if case['kind'] == 'outside-band':
            hi = H + 1
        lx, ux = b[i], b[j] + (extra if j == nb else 0)
        cx, w = (lx + ux) / 2, ux - lx
        cy, h = (lo + hi) / 2.0, float(hi - lo)
        spec = [cy, cx, h, w] if tr else [cx, cy, w, h]
        box = (float(lo), lx, float(hi), ux) if tr else (lx, float(lo), ux, float(hi))
        inputs.append(dict(box=box, kind=kind, spec=spec))
        if kind == 'fixed':
            fixed_rects.append(spec)
        else:
            regions.append(spec + [kind])
    tree = {'width': H if tr else W, 'height': W if tr else H}
    if regions:
        tree['regions'] = regions
    netlist = None
    if fixed_rects or case.get('netlist'):
        mods = {f'F{n}': {'fixed': True, 'rectangles': [r]} for n, r in enumerate(fixed_rects)}
        if case.get('netlist') == 'terminals':
            mods['T1'] = {'terminal': True}
            mods['T2'] = {'terminal': True, 'fixed': True, 'center': [0.5, 0.5]}
        netlist = Netlist({'Modules': mods, 'Nets': [['T1', 'T2']]} if case.get('netlist') else {'Modules': mods})
    DW, DH = tree['width'], tree['height']
    try:
        die = Die(tree, netlist)
    except AssertionError as e:
        I.detail = f"rejected: {e}"
        if case['kind'] == 'valid':
            I.prove('valid-description-never-rejected', False)
        else:
            I.reached('rejected-invalid')
        return
    if case['kind'] != 'valid':
        I.prove('invalid-description-rejected', False)
        return
    I.reached('accepted')
    px, py = I.real('px', -1, 1001), I.real('py', -1, 1001)
    groups = dict(ground=die.ground_regions, spec=die.specialized_regions, block=die.blockages, fixed=die.fixed_regions)
    allr = [r for g in groups.values() for r in g]
    boxes = [geo.rbox(r) for r in allr]
    I.observe('n_ground', len(groups['ground']))
    dbox = (0, 0, DW, DH)
    I.prove('all-inside-die', And(*[geo.box_inside(bx, dbox) for bx in boxes]))
    I.prove('no-two-overlap', Count([geo.p_in_open(bx, px, py) for bx in boxes]) <= 1)
    I.prove('die-covered', Implies(geo.p_in_open(dbox, px, py), Or(*[geo.p_in_closed(bx, px, py) for bx in boxes])))
    I.prove('areas-sum-to-die', Eq(sum([(bx[2] - bx[0]) * (bx[3] - bx[1]) for bx in boxes], 0), DW * DH))
    # every input region reported unchanged with its tag, in its own list; nothing else reported there
    want = dict(block=[x for x in inputs if x['kind'] == '#'], spec=[x for x in inputs if x['kind'] in ('dsp', 'bram')],
                fixed=[x for x in inputs if x['kind'] == 'fixed'])
    for g in ('block', 'spec', 'fixed'):
        I.prove(f'{g}-count', len(groups[g]) == len(want[g]))
        for x in want[g]:
            tag = {'block': '#', 'spec': x['kind'], 'fixed': '_'}[g]
            I.prove(f'{g}-reported-unchanged', Or(*[And(Eq(r.center.x, x['spec'][0]), Eq(r.center.y, x['spec'][1]),
                                                        Eq(r.shape.w, x['spec'][2]), Eq(r.shape.h, x['spec'][3]),
                                                        r.region == tag, r.fixed == (g == 'fixed')) for r in groups[g]]))
    I.prove('ground-tagged', all(r.region == '_' and not r.fixed for r in groups['ground']))
    I.prove('ground-avoids-inputs', And(*[Not(geo.interiors_meet(geo.rbox(r), x['box'])) for r in groups['ground'] for x in inputs]))
