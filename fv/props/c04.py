"""C04 -- netlist write -> read round trip preserves the design."""
from fv import symx, shimall
from fv.symx import And, Or, Not, Eq
from fv.props import net_common as NC
from frame.netlist.netlist import Netlist
from frame.netlist.yaml_write_netlist import dump_yaml_modules, dump_yaml_edges

PID = 'C04'
FUNCTIONS = ['Netlist.__init__', 'parse_yaml_netlist', 'parse_yaml_modules', 'parse_yaml_module', 'parse_yaml_center',
             'parse_yaml_aspect_ratio', 'parse_yaml_rectangles', 'parse_yaml_rectangle', 'parse_yaml_edges', 'Module.__init__',
             'Module.setup', 'Module._read_region_area', 'Module.calculate_center_from_rectangles', 'Netlist._create_rectangles',
             'create_stog', 'dump_yaml_modules', 'dump_yaml_module', 'dump_yaml_rectangles', 'dump_yaml_edges', 'Netlist.write_yaml (tree level)']
BOUNDS = {'quick': '6 document structures with <=3 modules covering all 11 module kinds (soft scalar/per-region areas, centre, scalar/pair '
                   'aspect ratio, rectangles in named regions, hard, flippable, fixed, terminal, fixed terminal) and nets of arity 2-3 with '
                   'weight absent / 1 / symbolic; all areas, centres, ratios, weights, rectangle positions and widths symbolic reals',
          'thorough': '10 structures, two nets'}
STUBS = ['YAML text layer (ruamel) bypassed in the symbolic run: the tree handed to write_yaml is handed to the reader; concrete replays '
         'and witness replays go through the real YAML text']
ASSUMPTIONS = ['R model; rectangle heights and y positions concrete (one axis symbolic)', 'Rectangle tolerances preset (1e-10, 1e-5)']
NOT_DECIDED = ['ruamel number formatting', 'file I/O', 'binary64 round-off of recomputed quantities (e.g. the last bit of a centroid summed in another rectangle order after the trunk was moved first): R model']
MUST_REACH = ['roundtrip']


def setup():
    shimall.install_frame()


def reset():
    symx.ALLOW_STR = True
    shimall.reset_epsilon()


def cases(tier):
    cs = [dict(struct=s) for s in NC.structs(tier)]
    # the same round trip after another design with the same module names was loaded and written in this process
    cs += [dict(struct=s, hist=True) for s in NC.structs(tier)[:4]]
    return cs


HISTORY_DESIGN = {'Modules': {'M0': {'area': 7.5, 'center': [1.0, 2.0]}, 'M1': {'hard': True, 'rectangles': [[3.0, 3.0, 2.0, 2.0]]},
                              'M2': {'area': {'dsp': 1.5}}}, 'Nets': [['M0', 'M1', 3.0]]}


def dump(n):
    return {'Modules': dump_yaml_modules(n.modules), 'Nets': dump_yaml_edges(n.edges)}


def body(I, case):
    if case.get('hist'):
        import copy
        h = Netlist(copy.deepcopy(HISTORY_DESIGN))
        dump(h) if I.mode == 'symbolic' else h.write_yaml()
    tree, specs, nspecs = NC.build_doc(I, case['struct'])
    try:
        n = Netlist(tree)
    except AssertionError as e:
        I.discard(f'reader rejects the source document: {e}')
    d1 = dump(n)
    try:
        if I.mode == 'symbolic':
            n2 = Netlist(d1)
        else:
            n2 = Netlist(n.write_yaml())
    except AssertionError as e:
        I.detail = f'reload rejected: {e}'
        I.prove('written-document-accepted-by-reader', False)
        return
    I.reached('roundtrip')
    I.prove('same-modules-in-order', [m.name for m in n.modules] == [m.name for m in n2.modules])
    for m, m2 in zip(n.modules, n2.modules):
        a, b = NC.module_view(m), NC.module_view(m2)
        I.prove('module-kind-preserved', (a['soft'], a['hard'], a['fixed'], a['terminal']) == (b['soft'], b['hard'], b['fixed'], b['terminal']))
        I.prove('flip-preserved', a['flip'] == b['flip'])
        I.prove('per-region-areas-preserved', sorted(a['areas']) == sorted(b['areas']) and And(*[Eq(a['areas'][k], b['areas'][k]) for k in a['areas']]))
        I.prove('module-fully-preserved', NC.same_view(a, b))
    I.prove('same-nets', len(n.edges) == len(n2.edges) and And(*[And([x.name for x in e.modules] == [x.name for x in e2.modules], Eq(e.weight, e2.weight))
                                                                  for e, e2 in zip(n.edges, n2.edges)]))
    # the loaded design also says what the source document said (kinds, flip, per-region areas, weights)
    for m, s in zip(n.modules, specs):
        I.prove('loaded-kind-as-written', (m.is_soft, m.is_fixed, m.is_terminal, m.flip) == (s['soft'], s['fixed'], s['terminal'], s['flip']))
    I.prove('writing-is-repeatable', NC.tree_equal(dump(n2), d1))
    I.prove('writing-does-not-alter-the-design', NC.tree_equal(dump(n), d1))
    I.observe('nmods', len(n2.modules))
