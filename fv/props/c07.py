"""C07 -- SAT layer: every posted constraint is encoded exactly."""
import itertools
from fv import symx
from fv.symx import And, Or, Not, Ite, Eq, Implies, Iff, Sum
import tools.rect.pseudobool as PB
import tools.rect.satmanager as SM

PID = 'C07'
FUNCTIONS = ['Ineq.__init__', 'Ineq.isclause', 'Ineq.getrobdd', 'constructrobdd', 'maxsum', 'largebit', 'insert',
             'SATManager.add_clause', 'newvar', 'newaux', 'quadraticencoding', 'heuleencoding', 'imply', '_codifyrobdd',
             'pseudoboolencoding', 'solve', 'value', 'evalexpr']
BOUNDS = {'quick': 'inequalities with n<=3 literal occurrences over variables a,b,c (either polarity, repeats), unbounded '
                   'symbolic integer coefficients and bound (coefficients in [-7,7] for the coefficient-decomposition '
                   'construction), 5 operators, both constructions; history: 0 or 1 earlier encoding; at-most-one groups '
                   'm<=6 (k in 3,4), clauses/implications over <=3 literals; solve(): every model of <=5 variables',
          'thorough': 'n<=4 (plain construction), at-most-one m<=9 k in 3,4,5, history up to 2'}
STUBS = ['pysat Solver replaced by an object returning an ARBITRARY model of the clauses it was given (symbolic model); '
         'contract: solve() is a complete SAT procedure, get_model() satisfies the added clauses']
ASSUMPTIONS = ['python int = mathematical integer', 'str(symbolic int) is an injective token of the simplified term: '
               'memo keys can miss but never falsely hit']
NOT_DECIDED = ['PySAT itself', 'variable-name collisions with reserved prefixes', 'prioritize/tocnf (deprecated)']
MUST_REACH = ['ineq-encoded', 'amo', 'clause', 'solve', 'history']
VARS = ['a', 'b', 'c', 'd']


class StubSolver:
    """z3-free symbolic stand-in for pysat's Solver: the model is arbitrary among the models of the clauses."""
    def __init__(self):
        self.cl = []

    def add_clause(self, c):
        self.cl.append(list(c))

    def solve(self):
        I = StubSolver.I
        nv = max([abs(l) for c in self.cl for l in c] + [0])
        self.bits = {i: I.bool(f"model.{i}") for i in range(1, nv + 1)}
        sat = And(*[Or(*[(self.bits[abs(l)] if l > 0 else Not(self.bits[abs(l)])) for l in c]) for c in self.cl])
        StubSolver.last = self
        # complete procedure: returns True iff satisfiable; explore the 'True' outcome with an arbitrary model
        ctx = symx.Ctx.cur
        ctx.solver.push()
        ctx.solver.add(symx._bz(sat))
        r = ctx.check()
        ctx.solver.pop()
        if r == 'unsat':
            return False
        I.assume(sat)
        return True

    def get_model(self):
        return [Ite(self.bits[i], i, -i) for i in sorted(self.bits)]


def setup():
    symx.install(PB)
    symx.install(SM)
    SM.Solver = StubSolver


def reset():
    PB.memory[:] = [0, 1]
    PB.mmap.clear()


def cnf_ext(clauses, names):
    """for every assignment of `names`: does it extend to a model of the clause list?  (z3, concrete clauses)"""
    import z3
    vs = {}

    def var(n):
        if n not in vs:
            vs[n] = z3.Bool(n)
        return vs[n]
    s = z3.Solver()
    for c in clauses:
        s.add(z3.Or(*[var(l.v) if l.s else z3.Not(var(l.v)) for l in c]) if c else z3.BoolVal(False))
    out = {}
    for bits in itertools.product([False, True], repeat=len(names)):
        r = s.check(*[var(n) if b else z3.Not(var(n)) for n, b in zip(names, bits)])
        assert str(r) in ('sat', 'unsat')
        out[bits] = (str(r) == 'sat')
    return out


def brute_ext(clauses, names):
    """same, by enumeration (used in concrete replays, where z3 is not available)"""
    allv = list(names)
    for c in clauses:
        for l in c:
            if l.v not in allv:
                allv.append(l.v)
    out = {}
    for bits in itertools.product([False, True], repeat=len(names)):
        ok = False
        for rest in itertools.product([False, True], repeat=len(allv) - len(names)):
            asg = dict(zip(allv, list(bits) + list(rest)))
            if all(any(asg[l.v] == l.s for l in c) for c in clauses):
                ok = True
                break
        out[bits] = ok
    return out


def ext_table(I, clauses, names):
    return cnf_ext(clauses, names) if I.mode == 'symbolic' else brute_ext(clauses, names)


def structures(n):
    """canonical variable patterns (a new variable or a repeat) x polarity patterns"""
    pats = [[0]]
    for i in range(1, n):
        pats = [p + [v] for p in pats for v in range(min(max(p) + 2, 3))]
    return [(p, list(s)) for p in pats for s in itertools.product([0, 1], repeat=n)]


def make_ineq(I, sm, tag, n, op, coef_bound=None, struct=None, conc=None, voff=0):
    """build sum c_i*lit_i (op) b through the real API; returns (Ineq, semantics(bits)->bool expr, names)"""
    e = PB.Expr()
    terms = []
    for i in range(n):
        vi, pol = struct[0][i], struct[1][i]
        if conc is not None:  # concrete coefficients (every value of the range, by structural choice): memo keys are real strings
            c = conc[0] + I.choice(f"{tag}.k{i}", conc[1] - conc[0] + 1)
        else:
            c = I.int(f"{tag}.c{i}") if coef_bound is None else I.int(f"{tag}.c{i}", -coef_bound, coef_bound)
        vi = vi + voff
        lit = sm.newvar(VARS[vi])
        if pol:
            lit = -lit
        e = e + c * lit
        terms.append((c, vi, pol))
    if conc is not None:
        b = conc[2] + I.choice(f"{tag}.kb", conc[3] - conc[2] + 1)
    else:
        b = I.int(f"{tag}.b") if coef_bound is None else I.int(f"{tag}.b", -4 * coef_bound, 4 * coef_bound)
    q = e >= b if op == '>=' else e <= b if op == '<=' else e > b if op == '>' else e < b if op == '<' else (e == b)
    used = sorted(set(v for _, v, _ in terms))

    def sem(asg):  # asg: dict var index -> python bool
        tot = 0
        for c, vi, pol in terms:
            val = asg[vi] != bool(pol)
            if val:
                tot = tot + c
        return tot >= b if op == '>=' else tot <= b if op == '<=' else tot > b if op == '>' else tot < b if op == '<' else Eq(tot, b)
    return q, sem, used


def check_exact(I, label, sm, sems, used):
    names = ['def_' + VARS[v] for v in used]
    ext = ext_table(I, sm.clauses, names)
    conds = []
    for bits, e in ext.items():
        asg = dict(zip(used, bits))
        want = And(*[s(asg) for s in sems])
        conds.append(want if e else Not(want))
    I.prove(label, And(*conds))


EARLIER = [
    lambda sm: sm.pseudoboolencoding(3 * sm.newvar('a') + 2 * sm.newvar('b') + 2 * sm.newvar('c') >= 4),
    lambda sm: sm.pseudoboolencoding(2 * sm.newvar('b') + 1 * sm.newvar('a') + 1 * sm.newvar('c') >= 2, True),
    lambda sm: sm.pseudoboolencoding(4 * sm.newvar('a') + 3 * sm.newvar('b') + 2 * sm.newvar('c') + 1 * sm.newvar('d') >= 5),
    lambda sm: sm.pseudoboolencoding(4 * sm.newvar('a') + 3 * (-sm.newvar('b')) + 2 * (-sm.newvar('c')) >= 5),
]
EARLIER_SEM = [
    lambda asg: 3 * asg.get(0, False) + 2 * asg.get(1, False) + 2 * asg.get(2, False) >= 4,
    lambda asg: 2 * asg.get(1, False) + 1 * asg.get(0, False) + 1 * asg.get(2, False) >= 2,
    lambda asg: 4 * asg.get(0, False) + 3 * asg.get(1, False) + 2 * asg.get(2, False) + 1 * asg.get(3, False) >= 5,
    lambda asg: 4 * asg.get(0, False) + 3 * (not asg.get(1, False)) + 2 * (not asg.get(2, False)) >= 5,
]


def cases(tier):
    cs = []
    ns = (1, 2, 3) if tier == 'quick' else (1, 2, 3, 4)
    for op in ('>=', '<=', '>', '<', '=='):
        for n in ns:
            if n == 4 and op != '>=':
                continue
            for st in structures(n):
                if n == 4 and (st[1][0] or st[0][1] == 0):
                    continue  # thorough n=4: first literal positive, second a new variable
                cs.append(dict(kind='ineq', op=op, n=n, decomp=False, hist=0, struct=st))
        for n in (1, 2):
            for st in structures(n):
                cs.append(dict(kind='ineq', op=op, n=n, decomp=True, hist=0, struct=st))
    for hist in ((1,) if tier == 'quick' else (1, 2)):
        for same in (False, True):
            for decomp in (False, True):
                for st in structures(2):
                    cs.append(dict(kind='ineq', op='>=', n=2, decomp=decomp, hist=hist, same_manager=same, struct=st))
    # history with CONCRETE coefficients (symbolic coefficients print as opaque tokens, so textual memo collisions need concrete ones)
    for same in (False, True):
        for decomp in (False, True):
            for st in (([0, 1], [0, 1]), ([0, 1], [1, 0])):
                cs.append(dict(kind='ineq', op='>=', n=2, decomp=decomp, hist=2, same_manager=same, struct=st, conc=[1, 4, 1, 8]))
            # the probe over the LATER variables of an earlier constraint (its diagram may be a sub-diagram of the earlier one)
            cs.append(dict(kind='ineq', op='>=', n=2, decomp=decomp, hist=2, same_manager=same, struct=([0, 1], [0, 0]), conc=[1, 4, 1, 8], voff=1,
                           hist_from=0))
    ms = range(1, 7) if tier == 'quick' else range(1, 10)
    ks = (3, 4) if tier == 'quick' else (3, 4, 5)
    for m in ms:
        cs.append(dict(kind='amo', m=m, enc='quad'))
        for k in ks:
            cs.append(dict(kind='amo', m=m, enc='heule', k=k))
    cs.append(dict(kind='amo', m=4, enc='heule', k=2))
    for n in (1, 2, 3):
        cs.append(dict(kind='clause', n=n))
        cs.append(dict(kind='imply', n=n))
    cs.append(dict(kind='solve', which=0))
    cs.append(dict(kind='solve', which=1))
    cs.append(dict(kind='solve', which=2))
    for c in cs:
        if c.get('hist'):
            c['_fork'] = True  # every path in its own process: leftover state of one re-execution must not reach the next
    return cs


OPTS = {'quick': dict(max_paths=100000), 'thorough': dict(max_paths=600000)}


def body(I, case):
    kind = case['kind']
    if kind == 'ineq':
        sm = SM.SATManager()
        sems = []
        hist_vars = set()
        for h in range(case['hist']):
            hm = sm if case.get('same_manager') else SM.SATManager()
            idx = I.choice(f'h{h}', len(EARLIER)) if not case.get('conc') else (case.get('hist_from', 2) + 2 * h) % len(EARLIER)
            EARLIER[idx](hm)
            if case.get('same_manager'):
                sems.append(EARLIER_SEM[idx])
                hist_vars |= {0, 1, 2, 3} if idx == 2 else {0, 1, 2}
            I.reached('history')
        bound = 7 if case['decomp'] else None
        before = len(sm.clauses)
        try:
            q, sem, used = make_ineq(I, sm, 'q', case['n'], case['op'], bound, case['struct'], conc=case.get('conc'), voff=case.get('voff', 0))
        except (TypeError,) as e:
            I.reached('refused-at-construction')
            return
        try:
            sm.pseudoboolencoding(q, case['decomp'])
        except Exception as e:
            if isinstance(e, (AssertionError,)):
                raise
            I.reached('refused')
            I.prove('ge-le-never-refused', case['op'] not in ('>=', '<=') or case['decomp'])
            I.prove('refusal-is-explicit', str(e) in ('Not implemented yet.',))
            return
        I.reached('ineq-encoded')
        used = sorted(set(used) | hist_vars)
        check_exact(I, 'cnf-projects-to-constraint', sm, sems + [sem], used)
    elif kind == 'amo':
        sm = SM.SATManager()
        m = case['m']
        lits = []
        for i in range(m):
            l = sm.newvar('x%d' % i)
            if I.choice(f'pol{i}', 2) if i < 2 else 0:
                l = -l
            lits.append(l)
        pols = [l.s for l in lits]
        orig = list(lits)
        try:
            if case['enc'] == 'quad':
                sm.quadraticencoding(lits)
            else:
                sm.heuleencoding(lits, case['k'])
        except Exception as e:
            I.reached('refused')
            I.prove('amo-refused-only-k<3', case.get('k', 3) < 3)
            return
        I.reached('amo')
        names = ['def_x%d' % i for i in range(m)]
        ext = ext_table(I, sm.clauses, names)
        ok = True
        for bits, e in ext.items():
            cnt = sum(1 for b, p in zip(bits, pols) if b == p)
            if e != (cnt <= 1):
                ok = False
        I.prove('amo-exact', ok)
        I.prove('amo-input-list-unchanged', len(orig) == len(lits) and all(a is b for a, b in zip(orig, lits)) and [l.s for l in lits] == pols)
    elif kind in ('clause', 'imply'):
        sm = SM.SATManager()
        n = case['n']
        lits = []
        for i in range(n):
            l = sm.newvar(VARS[I.choice(f'v{i}', min(i + 1, 3))])
            if I.choice(f's{i}', 2):
                l = -l
            lits.append(l)
        if kind == 'clause':
            sm.add_clause(list(lits))

            def sem(asg):
                return any(asg[VARS.index(l.v[4:])] == l.s for l in lits)
        else:
            sm.imply(list(lits[:-1]), lits[-1])

            def sem(asg):
                return (not all(asg[VARS.index(l.v[4:])] == l.s for l in lits[:-1])) or asg[VARS.index(lits[-1].v[4:])] == lits[-1].s
        I.reached('clause')
        used = sorted(set(VARS.index(l.v[4:]) for l in lits))
        check_exact(I, kind + '-exact', sm, [sem], used)
    elif kind == 'solve':
        if I.mode == 'symbolic':
            StubSolver.I = I
        sm = SM.SATManager()
        a, b, c = sm.newvar('a'), sm.newvar('b'), sm.newvar('c')
        which = case['which']
        posted = []
        if which == 0:
            sm.add_clause([a, -b])
            sm.imply([a], c)
            sm.quadraticencoding([a, b, c])
            posted = [lambda g: g['a'] or not g['b'], lambda g: (not g['a']) or g['c'], lambda g: g['a'] + g['b'] + g['c'] <= 1]
            expr = 2 * a + 3 * (-b) + 5
            exprv = lambda g: 2 * g['a'] + 3 * (1 - g['b']) + 5
            satisfiable = True
        elif which == 1:
            sm.pseudoboolencoding(2 * a + 3 * b + 1 * c >= 4)
            sm.pseudoboolencoding(a + b <= 1)
            posted = [lambda g: 2 * g['a'] + 3 * g['b'] + g['c'] >= 4, lambda g: g['a'] + g['b'] <= 1]
            expr = PB.Expr() + a + b + c
            exprv = lambda g: g['a'] + g['b'] + g['c']
            satisfiable = True
        else:
            sm.add_clause([a])
            sm.add_clause([-a, b])
            sm.pseudoboolencoding(a + b <= 1)
            posted = []
            expr = PB.Expr() + a
            exprv = lambda g: g['a']
            satisfiable = False
        r = sm.solve()
        I.reached('solve')
        I.prove('solve-verdict', r == satisfiable)
        if r:
            g = {}
            for n_, l in (('a', a), ('b', b), ('c', c)):
                v = sm.value(l)
                g[n_] = v
            if symx.is_sym(*g.values()):
                gi = {k: v for k, v in g.items()}
            else:
                gi = g
            I.prove('model-is-01', And(*[Or(Eq(v, 0), Eq(v, 1)) for v in g.values()]))
            for i, p in enumerate(posted):
                I.prove(f'model-satisfies-posted-{i}', p({k: v for k, v in gi.items()}) if not symx.is_sym(*gi.values())
                        else _sym_posted(which, i, gi))
            ev = sm.evalexpr(expr)
            I.prove('evalexpr', Eq(ev, exprv(gi)))
            I.prove('value-of-negation', Eq(sm.value(-a), 1 - g['a']))
            if I.mode == 'symbolic':
                # the integer clauses handed to the solver are the literal clauses under ttable
                st = StubSolver.last
                okc = len(st.cl) == len(sm.clauses) and all(
                    [(sm.ttable[l.v] if l.s else -sm.ttable[l.v]) for l in cl] == ic for cl, ic in zip(sm.clauses, st.cl))
                I.prove('clauses-handed-to-solver', okc)


def _sym_posted(which, i, g):
    a, b, c = g['a'], g['b'], g['c']
    if which == 0:
        return [Or(Eq(a, 1), Eq(b, 0)), Or(Eq(a, 0), Eq(c, 1)), a + b + c <= 1][i]
    return [2 * a + 3 * b + c >= 4, a + b <= 1][i]
