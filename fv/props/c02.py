"""C02 -- refining an allocation conserves tiling, module area and centroid."""
from fv import symx
from fv.symx import And, Or, Not, Eq, Implies, Iff
from fv import geo
from fv.props import alloc_common as AC
from fv.props.alloc_common import setup, reset, FUNCTIONS, ASSUMPTIONS  # noqa

PID = 'C02'
BOUNDS = {'quick': 'n<=3 cells from 11 partition templates over symbolic breakpoints (one axis symbolic, the other concrete; both orientations) plus 2 free-floating cells, <=2 modules, occupancy ratios and threshold '
                   'symbolic reals in [0,1], levels<=2, recorded depths from 3 patterns, one fixed-cell pattern; single operations',
          'thorough': 'n<=4 cells, levels<=3, compositions of two operations'}
NOT_DECIDED = ['compositions longer than two', 'more than 4 cells', 'fixed cells under uniform_refinement_depth and refine(1.0) '
               '(C12 requires them to be cut)', 'sub-margin geometry / rounding']
MUST_REACH = ['refine', 'uniform', 'griddify']
OPS = ['refine', 'uniform', 'griddify']


PLAN = {
    'quick': [('one', [[2], [0]], [[0], [1]]), ('one-tall', [[1]], [[0]]),
              ('row2', [[1, 2], [2, 0]], [[0, 0], [1, 0]]), ('col2', [[2, 3]], [[0, 1]]), ('gap2', [[1, 2]], [[0, 0]]),
              ('offset2', [[2, 1]], [[0, 0]]), ('tallshort2', [[1, 2]], [[1, 0]]),
              ('row3', [[1, 2, 0]], [[0, 0, 0]]), ('L3', [[2, 3, 1]], [[0, 2, 1]]), ('col3', [[1, 0, 2]], [[0, 0, 0]]),
              ('stairs3', [[2, 1, 3]], [[0, 1, 0]])],
    'thorough': [('T3', [[1, 2, 3]], [[0, 0, 1]]), ('row3', [[2, 2, 2]], [[0, 2, 1]]), ('grid4', [[1, 2, 0, 3]], [[0, 1, 0, 2]]),
                 ('row4', [[1, 2, 3, 0]], [[0, 0, 0, 0]]), ('mix4', [[2, 1, 3, 2]], [[0, 0, 1, 0]])],
}


def layouts(tier):
    out = []
    plan = PLAN['quick'] + (PLAN['thorough'] if tier == 'thorough' else [])
    for name, maps_list, depth_list in plan:
        n = len(AC.TEMPLATES[name])
        for k, mp in enumerate(maps_list):
            dp = depth_list[k % len(depth_list)]
            for tr in (0, 1):
                out.append(dict(template=name, n=n, maps=mp, depths=dp, transposed=tr))
        if n >= 2:  # one fixed cell (owned by A with ratio 1)
            out.append(dict(template=name, n=n, maps=[1] + maps_list[0][1:], depths=[0] * n, transposed=0, fixed=[1] + [0] * (n - 1)))
    for bands in ([(0, 1), (0, 1)], [(0, 2), (0, 1)], [(0, 1), (1, 2)]):
        out.append(dict(template='free2', n=2, bands=[list(b) for b in bands], maps=[1, 2], depths=[0, 0], transposed=0))
    return out


def cases(tier):
    cs = []
    for lay in layouts(tier):
        for op in OPS:
            if op == 'refine':
                for lv in ((1, 2) if tier == 'quick' else (1, 2, 3)):
                    if lv == 3 and lay['n'] > 2:
                        continue
                    if lay['template'] == 'free2' and lv >= (2 if tier == 'quick' else 3):
                        continue
                    cs.append(dict(lay, ops=[op], levels=lv))
            else:
                cs.append(dict(lay, ops=[op], levels=1))
    if tier == 'thorough':
        for lay in layouts('quick'):
            if lay['n'] > 2:
                continue
            for op1 in OPS:
                for op2 in OPS:
                    cs.append(dict(lay, ops=[op1, op2], levels=1))
    return cs


OPTS = {'quick': dict(max_paths=20000, budget_s=900), 'thorough': dict(max_paths=200000, budget_s=1500)}


def body(I, case):
    al, cells = AC.make_alloc(I, case)
    px, py = I.real('px', -10, 200), I.real('py', -10, 200)
    t = I.real('t', 0, 1)
    cur = al
    for k, op in enumerate(case['ops']):
        try:
            new = AC.apply_op(I, cur, op, dict(t=t, levels=case['levels']))
        except (AssertionError, IndexError, ZeroDivisionError, KeyError, ValueError, TypeError) as e:
            I.detail = f"{op} raised {type(e).__name__}: {e}"
            I.prove(f'{op}-succeeds-on-valid-allocation', False)
            return
        I.reached(op)
        cur_cells = AC.snapshot(cur)
        new_cells = AC.snapshot(new)
        if k == 0:
            # the harness's own record of the input must agree with what the constructor stored
            I.prove('prestate-as-given', And(*[And(*[Eq(a, b) for a, b in zip(c['box'], d['box'])]) for c, d in zip(cells, cur_cells)]))
        I.observe(f'ncells{k}', len(new_cells))
        AC.conservation(I, op, cur_cells, new_cells, px, py, via_api=(cur, new))
        # fixed cells are never cut by griddify, nor by refine with threshold < 1
        for o in cur_cells:
            if o['fixed']:
                kept = Or(*[And(*[Eq(a, b) for a, b in zip(c['box'], o['box'])]) for c in new_cells])
                if op == 'griddify':
                    I.prove('fixed-cell-never-cut:griddify', kept)
                elif op == 'refine':
                    I.prove('fixed-cell-never-cut:refine(t<1)', Implies(t < 1, kept))
        cur = new
    if len(case['ops']) == 2:
        AC.conservation(I, 'composition', AC.snapshot(al), AC.snapshot(cur), px, py)
