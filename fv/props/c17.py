"""C17 -- disc-overlap area: total, symmetric (bounded / accurate: not decided, see NOT_DECIDED)."""
from fractions import Fraction
from fv import symx
from fv.symx import And, Or, Not, Eq, Implies, Iff, Min, Max, Abs
from frame.geometry import geometry as G
from frame.geometry.geometry import Point
import tools.force.fruchterman_reingold as FR
from tools.force.fruchterman_reingold import circle_circle_intersection_area

PID = 'C17'
FUNCTIONS = ['circle_circle_intersection_area', 'Point.__sub__', 'Point.__neg__', 'Point.__add__', 'Point.norm']
BOUNDS = {'quick': 'binary64 totality also probed for radii >= 1.34e154 (known finding: OverflowError); R model: all centres and radii reals (|coordinate| <= 1e6, 1e-6 <= r <= 1e6), acos uninterpreted with '
                   'sin(acos t)=sqrt(1-t^2); F model (binary64, QF_FP): see the fp_* jobs',
          'thorough': 'same, longer solver budgets'}
STUBS = ['max/min inside the module as if-then-else terms (same value as the builtins, no fork)', 'math.acos / math.asin: Ackermannised uninterpreted functions on [-1,1] (domain error outside) with range, monotonicity and the principal-value identities acos t = asin(sqrt(1-t^2)) (t>=0), = pi - asin(sqrt(1-t^2)) (t<0); sin(acos t) = sqrt(1-t^2), cos(acos t) = t, sin(asin t) = t; sqrt: s>=0 and s*s=arg',
         'binary64 model: acos/asin/sin return a fresh value in their range (sin >= 0 on [0, pi_binary64])']
ASSUMPTIONS = ['R model for symmetry/case structure; binary64 model for totality']
NOT_DECIDED = ['result within [0, area of the smaller disc] (needs analytic reasoning about acos)',
               'accuracy 1e-5*R^2 against the exact lens area (transcendental + libm error analysis)']
MUST_REACH = ['far', 'nested', 'lens', 'fp-returns', 'fp-norm']


_orig_norm = Point.norm


def _norm_stub(self):
    d = getattr(Point, '_fv_norm', None)
    return d if d is not None else _orig_norm(self)


def setup():
    symx.install(G)
    symx.install(FR)
    Point.norm = _norm_stub


def reset():
    Point._fv_norm = None
    FR.__dict__.pop('max', None)
    FR.__dict__.pop('min', None)
    if symx.z3 is not None:
        FR.math = symx.MATH


HINTS = ['none', 'd=r1+r2', 'd=|r1-r2|+', 'r1=r2']


def cases(tier):
    cs = [dict(kind='r-model', general=1), dict(kind='r-model', general=0)]
    for h in HINTS:
        cs.append(dict(kind='fp-body', hint=h))
    cs.append(dict(kind='fp-norm'))
    # radii and distance beyond sqrt(max binary64): the squares overflow (recorded known finding; any OTHER failure there is new)
    cs.append(dict(kind='fp-body', hint='huge'))
    return cs


HUGE = 1.3407807929942597e154   # sqrt(2^1024): x**2 raises OverflowError in Python from here on


def classify(case, label, values):
    if case.get('hint') == 'huge' and label == 'total:never-fails(binary64):OverflowError':
        return 'C17-overflow-huge-radii'
    return None


# contract of the distance computed by Point.norm on bounded coordinates (proved on the real code by the fp-norm job,
# assumed for the fresh distance in the fp-body jobs)
DMAX = 4.0e6
DMIN = 1e-170


def norm_contract(d):
    from fv import symf
    import z3
    return SymBoolAnd(symf.is_finite(d), d >= 0.0, d <= DMAX, (d == 0.0) | (d >= DMIN))


def SymBoolAnd(*xs):
    return And(*xs)


OPTS = {'quick': dict(max_paths=2000, timeout_ms=60000), 'thorough': dict(max_paths=2000, timeout_ms=180000)}


def body(I, case):
    if case['kind'] == 'fp-body':
        return body_fp(I, case)
    if case['kind'] == 'fp-norm':
        return body_norm(I, case)
    lo, hi = Fraction(1, 10**6), 10**6
    r1 = I.real('r1', lo, hi)
    r2 = I.real('r2', lo, hi)
    if case['general']:
        x1, y1 = I.real('x1', -hi, hi), I.real('y1', -hi, hi)
    else:
        x1, y1 = 0.0, 0.0
    x2, y2 = I.real('x2', -hi, hi), (I.real('y2', -hi, hi) if case['general'] else 0.0)
    try:
        a = circle_circle_intersection_area(Point(x1, y1), r1, Point(x2, y2), r2)
    except (ValueError, ZeroDivisionError, OverflowError) as e:
        I.detail = f"raised {type(e).__name__}: {e}"
        I.prove('total:never-fails', False, side=True)
        return
    dx, dy = x1 - x2, y1 - y2
    d2 = dx * dx + dy * dy
    far = d2 > (r1 + r2) * (r1 + r2)
    nested = d2 <= (r1 - r2) * (r1 - r2)
    if not _mentions_acos(a):
        I.observe('area', a)
    which = 'far' if (not symx.is_sym(a) and a == 0) else None
    # case structure (the branch actually taken is known from the shape of the result on this path)
    pi_sq = None
    if isinstance(a, int) and a == 0:
        I.reached('far')
        I.prove('zero-only-when-far-apart', far, side=True)
    else:
        smaller = Min(r1, r2)
        nested_value = FR.math.pi * smaller * smaller if I.mode == 'symbolic' else __import__('math').pi * smaller * smaller
        is_nested_path = I.pick([Eq(a, nested_value)]) == 0 and not _mentions_acos(a)
        if is_nested_path:
            I.reached('nested')
            I.prove('disc-area-only-when-nested', And(nested, Eq(a, nested_value)), side=True)
        else:
            I.reached('lens')
            I.prove('lens-only-when-properly-intersecting', And(Not(far), Not(nested)), side=True)
    # symmetry in the arguments
    try:
        b = circle_circle_intersection_area(Point(x2, y2), r2, Point(x1, y1), r1)
    except (ValueError, ZeroDivisionError, OverflowError) as e:
        I.prove('total:never-fails(swapped)', False, side=True)
        return
    I.prove('symmetric', Eq(a, b, tol=1e-9), side=True)


def _mentions_acos(a):
    return symx.is_sym(a) and 'acos' in a.e.sexpr()


def body_fp(I, case):
    """binary64 totality of the function body, the centre distance being a fresh value satisfying the norm contract"""
    huge = case['hint'] == 'huge'
    r1 = I.fp('r1', 1e-6, 1e6) if not huge else I.fp('r1', HUGE, 1.7e308)
    r2 = I.fp('r2', 1e-6, 1e6) if not huge else I.fp('r2', HUGE, 1.7e308)
    d = I.fp('d', 0.0, DMAX) if not huge else I.fp('d', 0.0, 1.7e308)
    if I.mode == 'symbolic':
        from fv import symf
        FR.math = symf.FMATH
        FR.max, FR.min = symx.sym_max, symx.sym_min  # numeric max/min as if-then-else terms (same value, no fork)
        if not huge:
            I.assume(norm_contract(d))
        Point._fv_norm = d
        h = case['hint']
        if h == 'd=r1+r2':
            I.assume(d == r1 + r2)
        elif h == 'd=|r1-r2|+':
            I.assume(d > abs(r1 - r2))
            I.assume(d <= abs(r1 - r2) * 1.0000000000000004)
        elif h == 'r1=r2':
            I.assume(r1 == r2)
    else:
        if not (d == 0.0 or d >= DMIN):
            I.discard('outside the norm contract')
        if huge:   # the distance of the replay is the model's d: centres (0,0) and (d,0) would overflow inside norm itself
            Point._fv_norm = d
    c1, c2 = Point(0.0, 0.0), Point(d, 0.0)
    try:
        a = circle_circle_intersection_area(c1, r1, c2, r2)
    except (ValueError, ZeroDivisionError, OverflowError) as e:
        I.detail = f"raised {type(e).__name__}: {e}"
        I.reached('fp-exception-path')
        I.prove('total:never-fails(binary64)' + (':' + type(e).__name__ if huge else ''), False)
        return
    finally:
        Point._fv_norm = None
    I.reached('fp-returns')
    if I.mode == 'symbolic':
        from fv import symf
        fin = symf.is_finite(a) if isinstance(a, symf.SymF) else True
    else:
        import math
        fin = math.isfinite(a)
    I.prove('result-is-a-finite-number', fin)


def body_norm(I, case):
    """the real Point.__sub__/norm on bounded binary64 coordinates satisfies the contract assumed above"""
    x1, y1 = I.fp('x1', -1e6, 1e6), I.fp('y1', -1e6, 1e6)
    x2, y2 = I.fp('x2', -1e6, 1e6), I.fp('y2', -1e6, 1e6)
    Point._fv_norm = None
    if I.mode == 'symbolic':
        from fv import symf
        G.math = symf.FMATH
    try:
        d = _orig_norm(Point(x1, y1) - Point(x2, y2))
    except (ValueError, ZeroDivisionError, OverflowError) as e:
        I.prove('norm-never-fails', False)
        return
    I.reached('fp-norm')
    if I.mode == 'symbolic':
        I.prove('norm-contract', norm_contract(d))
    else:
        import math
        I.prove('norm-contract', math.isfinite(d) and 0 <= d <= DMAX and (d == 0.0 or d >= DMIN))


def ctx_class(case):
    if case['kind'].startswith('fp'):
        from fv import symf
        return symf.FCtx
    return None
