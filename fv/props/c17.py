"""C17 -- disc-overlap area: total, symmetric (bounded / accurate: not decided, see NOT_DECIDED)."""
from fractions import Fraction
from fv import symx
from fv.symx import And, Or, Not, Eq, Implies, Iff, Min, Max, Abs
from frame.geometry import geometry as G
from frame.geometry.geometry import Point
import tools.force.fruchterman_reingold as FR
from tools.force.fruchterman_reingold import circle_circle_intersection_area

PID = 'C17'
FUNCTIONS = ['circle_circle_intersection_area', 'Point.__sub__', 'Point.__neg__', 'Point.__add__', 'Point.norm']
BOUNDS = {'quick': 'R model: all centres and radii reals (|coordinate| <= 1e6, 1e-6 <= r <= 1e6), acos uninterpreted with '
                   'sin(acos t)=sqrt(1-t^2); F model (binary64, QF_FP): see the fp_* jobs',
          'thorough': 'same, longer solver budgets'}
STUBS = ['math.acos: uninterpreted on [-1,1], domain error outside; math.sin(acos t) = sqrt(1-t^2); sqrt: s>=0 and s*s=arg']
ASSUMPTIONS = ['R model for symmetry/case structure; binary64 model for totality']
NOT_DECIDED = ['result within [0, area of the smaller disc] (needs analytic reasoning about acos)',
               'accuracy 1e-5*R^2 against the exact lens area (transcendental + libm error analysis)']
MUST_REACH = ['far', 'nested', 'lens']


def setup():
    symx.install(G)
    symx.install(FR)


def reset():
    pass


def cases(tier):
    return [dict(kind='r-model', general=1), dict(kind='r-model', general=0)]


OPTS = {'quick': dict(max_paths=2000, timeout_ms=20000), 'thorough': dict(max_paths=2000, timeout_ms=60000)}


def body(I, case):
    lo, hi = Fraction(1, 10**6), 10**6
    r1 = I.real('r1', lo, hi)
    r2 = I.real('r2', lo, hi)
    if case['general']:
        x1, y1 = I.real('x1', -hi, hi), I.real('y1', -hi, hi)
    else:
        x1, y1 = 0.0, 0.0
    x2, y2 = I.real('x2', -hi, hi), (I.real('y2', -hi, hi) if case['general'] else 0.0)
    try:
        a = circle_circle_intersection_area(Point(x1, y1), r1, Point(x2, y2), r2)
    except (ValueError, ZeroDivisionError, OverflowError) as e:
        I.detail = f"raised {type(e).__name__}: {e}"
        I.prove('total:never-fails', False, side=True)
        return
    dx, dy = x1 - x2, y1 - y2
    d2 = dx * dx + dy * dy
    far = d2 > (r1 + r2) * (r1 + r2)
    nested = d2 <= (r1 - r2) * (r1 - r2)
    I.observe('area', a if not symx.is_sym(a) or True else None)
    which = 'far' if (not symx.is_sym(a) and a == 0) else None
    # case structure (the branch actually taken is known from the shape of the result on this path)
    pi_sq = None
    if isinstance(a, int) and a == 0:
        I.reached('far')
        I.prove('zero-only-when-far-apart', far, side=True)
    else:
        smaller = Min(r1, r2)
        nested_value = FR.math.pi * smaller * smaller if I.mode == 'symbolic' else __import__('math').pi * smaller * smaller
        is_nested_path = I.pick([Eq(a, nested_value)]) == 0 and not _mentions_acos(a)
        if is_nested_path:
            I.reached('nested')
            I.prove('disc-area-only-when-nested', And(nested, Eq(a, nested_value)), side=True)
        else:
            I.reached('lens')
            I.prove('lens-only-when-properly-intersecting', And(Not(far), Not(nested)), side=True)
    # symmetry in the arguments
    try:
        b = circle_circle_intersection_area(Point(x2, y2), r2, Point(x1, y1), r1)
    except (ValueError, ZeroDivisionError, OverflowError) as e:
        I.prove('total:never-fails(swapped)', False, side=True)
        return
    I.prove('symmetric', Eq(a, b, tol=1e-9), side=True)


def _mentions_acos(a):
    return symx.is_sym(a) and 'acos' in a.e.sexpr()
