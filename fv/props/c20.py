"""C20 -- results do not depend on what the process did before."""
import itertools
from fractions import Fraction
from fv import symx, shimall
from fv.symx import And, Or, Not, Eq, Implies, Iff
from fv import geo
from frame.geometry.geometry import Rectangle, Point, Shape
from frame.die.die import Die
from frame.netlist.netlist import Netlist
from frame.allocation.allocation import Allocation
import tools.rect.pseudobool as PB
import tools.rect.satmanager as SM
import tools.floorset_parser.floor_set_manager.strop as ST
import tools.legalfloor.legalfloor as LF
import tools.legalfloor.expression_tree as ET
import tools.legalfloor.model as MD

PID = 'C20'
FUNCTIONS = ['Rectangle.set_epsilon / epsilon_defined / distance_epsilon / area_epsilon (class-wide state)', 'Netlist.__init__ (load + verdict, '
             'orthogon recognition)', 'Die.__init__ (verdict, decomposition)', 'Allocation.__init__ / griddify', 'pseudobool.memory / mmap, '
             'Ineq.__init__ (mutable defaults), SATManager.pseudoboolencoding', 'Strop.__init__ (mutable defaults)',
             'expression_tree.epsilon / named_variables / debug_print, legalfloor.Model']
BOUNDS = {'quick': 'one history step from an arbitrary reachable pre-state: Rectangle tolerances left by an earlier design whose scale is within '
                   'a factor 1000 of the probed design (or undefined); 1-2 earlier pseudo-Boolean encodings; an earlier legaliser Model '
                   '(and turn_off_flag); earlier calls that received the mutable defaults. Probes: netlist load (2-rectangle hard module, '
                   'symbolic gap/overlap), die load (one region, symbolic breakpoints), allocation load + griddify (2 cells), inequality '
                   'encoding (n<=2, symbolic coefficients), Strop (2x3 symbolic grid), legaliser equations at a symbolic configuration',
          'thorough': 'same with 3-rectangle modules and n<=3 inequalities'}
ASSUMPTIONS = ['margin mode: distinct coordinates of the probed design differ by >= 1e-3 x scale, far above every admissible tolerance',
               'band mode: no margin; differences caused by the class-wide tolerance are the known finding C20-tolerance-history']
NOT_DECIDED = ['histories that change state other than through the API', 'designs outside the factor-1000 window', 'longer histories '
               '(one inductive step from an arbitrary reachable pre-state is checked)']
MUST_REACH = ['netlist', 'die', 'alloc', 'pseudobool', 'strop', 'legal', 'defaults']


def setup():
    shimall.install_frame()
    for mod in (PB, SM, ST, LF, ET, MD):
        symx.install(mod)
    ET.math_sqrt = symx.MATH.sqrt
    MD.math_sqrt = symx.MATH.sqrt
    for mod in (LF, ET, MD):
        mod.print = lambda *a, **k: None


IMPORT_DEBUG = 0xFF


def fresh_state():
    """the import-time value of every piece of process-wide state"""
    Rectangle._distance_epsilon = -1.0
    Rectangle._area_epsilon = -1.0
    PB.memory[:] = [0, 1]
    PB.mmap.clear()
    ET.named_variables.clear()
    ET.debug_print = IMPORT_DEBUG
    if hasattr(ET, 'epsilon'):
        try:
            del ET.epsilon
        except Exception:
            pass


def reset():
    symx.ALLOW_STR = True
    fresh_state()


def cases(tier):
    cs = []
    for mode in ('margin', 'band'):
        for layout in ('east', 'north'):
            cs.append(dict(kind='netlist', mode=mode, layout=layout))
        cs.append(dict(kind='die', mode=mode))
        cs.append(dict(kind='alloc', mode=mode))
    # concrete dies with decimal coordinates whose area sum carries binary64 round-off (the geometry is computed in real floats; only
    # the inherited tolerance is symbolic); all boundaries far apart: margin mode, any difference is a violation
    for d in DECIMAL_DIES:
        cs.append(dict(kind='diedec', mode='margin', die=d))
    # histories made of real API calls on an unrelated design of the same scale (margin mode: any difference is a violation)
    for hist in ('netlist-with-terminal', 'netlist-terminals-only', 'netlist-soft', 'die', 'allocation'):
        for layout in ('east', 'north'):
            cs.append(dict(kind='apihist', hist=hist, layout=layout))
    for hist in (1, 2):
        for op in ('>=', '<='):
            for decomp in (False, True):
                cs.append(dict(kind='pseudobool', hist=hist, op=op, decomp=decomp))
    for pol in ([0, 1], [1, 0], [0, 0]):
        for decomp in (False, True):
            cs.append(dict(kind='pseudobool', hist=1, op='>=', decomp=decomp, pol=pol, conc=[1, 5, 1, 9]))
    cs.append(dict(kind='strop'))
    cs.append(dict(kind='legal', net='hard2'))
    cs.append(dict(kind='legal', net='pair'))
    cs.append(dict(kind='defaults'))
    for c in cs:
        if c['kind'] in ('pseudobool', 'strop', 'legal', 'defaults'):
            c['_fork'] = True  # every path in its own process: leftover state of one re-execution must not reach the next
    return cs


OPTS = {'quick': dict(max_paths=30000, budget_s=900), 'thorough': dict(max_paths=300000, budget_s=1500)}


def classify(case, label, values):
    if case.get('mode') == 'band' and label.endswith('independent-of-earlier-tolerances'):
        return 'C20-tolerance-history'
    return None


def body(I, case):
    return globals()['body_' + case['kind']](I, case)


# ---------------------------------------------------------------------------------------------------------------
def history_tolerances(I, scale):
    """what an earlier design of comparable scale leaves behind: eps = 1e-12 * s', sqrt(eps) for areas"""
    k = I.real('hist_scale', Fraction(1, 1000), 1000)
    eps = k * scale * Fraction(1e-12) if I.mode == 'symbolic' else k * scale * 1e-12
    Rectangle.set_epsilon(eps)
    return Rectangle._distance_epsilon, Rectangle._area_epsilon


def run_three(I, probe, scale):
    """probe() after a tolerance-setting history, alone in a fresh process, and after the history with the tolerances forced to the fresh ones"""
    fresh_state()
    hist = history_tolerances(I, scale)
    r1 = probe()
    fresh_state()
    r2 = probe()
    own = (Rectangle._distance_epsilon, Rectangle._area_epsilon)
    fresh_state()
    history_tolerances(I, scale)
    Rectangle._distance_epsilon, Rectangle._area_epsilon = own
    r3 = probe()
    return r1, r2, r3


def compare(I, what, r1, r2, r3, eq):
    I.prove(f'{what}:independent-of-earlier-tolerances', eq(r1, r2), side=True)
    I.prove(f'{what}:same-result-when-tolerances-are-equal', eq(r3, r2), side=True)


def body_netlist(I, case):
    margin = case['mode'] == 'margin'
    g = I.real('gap', -0.5, 0.5)  # distance between trunk side and branch side (negative: overlap)
    if margin:
        I.assume(Or(Eq(g, 0), g >= 0.001, g <= -0.001))
    if case['layout'] == 'east':
        rects = [[2.0, 2.0, 2.0, 2.0], [3.0 + g + 0.5, 2.0, 1.0, 1.0]]
    else:
        rects = [[2.0, 2.0, 2.0, 2.0], [2.0, 3.0 + g + 0.5, 1.0, 1.0]]
    tree = {'Modules': {'H': {'hard': True, 'rectangles': rects}}}

    def probe():
        try:
            n = Netlist({'Modules': {'H': {'hard': True, 'rectangles': [list(r) for r in rects]}}})
        except AssertionError:
            return ('rejected',)
        m = n.modules[0]
        return ('accepted', m.has_stog, tuple(r.location.name for r in m.rectangles),
                tuple((r.center.x, r.center.y, r.shape.w, r.shape.h) for r in m.rectangles))
    r1, r2, r3 = run_three(I, probe, 1.0)
    I.reached('netlist')
    compare(I, 'netlist-load', r1, r2, r3, same_result)


def body_apihist(I, case):
    g = I.real('gap', -0.5, 0.5)
    I.assume(Or(Eq(g, 0), g >= 0.001, g <= -0.001))
    s_ = I.real('hist_area', 0.5, 4)
    if case['layout'] == 'east':
        rects = [[2.0, 2.0, 2.0, 2.0], [3.0 + g + 0.5, 2.0, 1.0, 1.0]]
    else:
        rects = [[2.0, 2.0, 2.0, 2.0], [2.0, 3.0 + g + 0.5, 1.0, 1.0]]

    def probe():
        try:
            n = Netlist({'Modules': {'H': {'hard': True, 'rectangles': [list(r) for r in rects]}}})
        except AssertionError:
            return ('rejected',)
        m = n.modules[0]
        return ('accepted', m.has_stog, tuple(r.location.name for r in m.rectangles))

    def history():
        h = case['hist']
        if h == 'netlist-with-terminal':
            Netlist({'Modules': {'A': {'area': s_, 'center': [1.0, 1.0]}, 'B': {'area': 2.0, 'center': [3.0, 1.0]},
                                 'P': {'terminal': True, 'fixed': True, 'center': [0.0, 2.0]}}, 'Nets': [['A', 'B', 'P']]})
        elif h == 'netlist-terminals-only':   # a design without any dimension
            Netlist({'Modules': {'P': {'terminal': True, 'fixed': True, 'center': [s_, 2.0]}, 'Q': {'terminal': True}}, 'Nets': [['P', 'Q']]})
        elif h == 'netlist-soft':
            Netlist({'Modules': {'A': {'area': s_, 'rectangles': [[1.0, 1.0, 2.0, 1.0]]}, 'B': {'area': 2.0, 'center': [3.0, 1.0]}}, 'Nets': [['A', 'B']]})
        elif h == 'die':
            Die({'width': 4.0 * s_, 'height': 3.0, 'regions': [[1.0, 1.0, 1.0, 1.0, '#']]})
        else:
            Allocation([[[1.0, 1.0, 2.0, 2.0], {'A': 0.5}], [[3.0, 1.0, 2.0, 2.0], {'A': 0.25, 'B': 0.5}]]).refine(0.6)
    fresh_state()
    try:
        history()
        r1 = probe()
    except Exception as e:
        r1 = ('raised', type(e).__name__)
    fresh_state()
    r2 = probe()
    I.reached('netlist')
    I.prove('netlist-load:independent-of-an-earlier-design(api history, margin)', same_result(r1, r2), side=True)


def same_result(a, b):
    if len(a) != len(b) or a[0] != b[0]:
        return False
    conds = []
    for x, y in zip(a[1:], b[1:]):
        conds.append(deep_eq(x, y))
    return And(*conds) if conds else True


def deep_eq(x, y):
    if isinstance(x, (tuple, list)) and isinstance(y, (tuple, list)):
        if len(x) != len(y):
            return False
        return And(*[deep_eq(u, v) for u, v in zip(x, y)])
    if isinstance(x, (str, bool)) or isinstance(y, (str, bool)):
        return x == y
    return Eq(x, y)


def body_die(I, case):
    margin = case['mode'] == 'margin'
    b1 = I.real('b1', 0, 10)
    b2 = b1 + I.real('g1', 0.05, 10)
    W = b2 + I.real('g2', 0, 10)
    if margin:
        I.assume(And(Or(Eq(b1, 0), b1 >= 0.01), Or(Eq(W, b2), W - b2 >= 0.01)))
    tree = {'width': W, 'height': 4.0, 'regions': [[(b1 + b2) / 2, 0.5, b2 - b1, 1.0, '#']]}

    def probe():
        try:
            d = Die({'width': W, 'height': 4.0, 'regions': [list(tree['regions'][0])]})
        except AssertionError:
            return ('rejected',)
        gr = sorted([(r.center.x, r.center.y, r.shape.w, r.shape.h) for r in d.ground_regions], key=lambda t: (t[1], t[3])) \
            if I.mode != 'symbolic' else [(r.center.x, r.center.y, r.shape.w, r.shape.h) for r in d.ground_regions]
        return ('accepted', len(d.ground_regions), tuple(gr))
    r1, r2, r3 = run_three(I, probe, 4.0)
    I.reached('die')
    compare(I, 'die-load', r1, r2, r3, same_result)


DECIMAL_DIES = [
    dict(width=393.5, height=244.2, regions=[[32.8, 195.0, 9.7, 16.8, '#']]),
    dict(width=393.0, height=185.7, regions=[[252.9, 106.4, 5.9, 11.3, 'dsp']]),
    dict(width=386.0, height=201.1, regions=[[279.9, 145.3, 5.2, 2.3, '#'], [100.1, 50.3, 20.2, 10.1, 'dsp']]),
]


def body_diedec(I, case):
    d = case['die']

    def probe():
        try:
            die = Die(dict(width=d['width'], height=d['height'], regions=[list(r) for r in d['regions']]))
        except AssertionError as e:
            return ('rejected',)
        return ('accepted', len(die.ground_regions), len(die.blockages), len(die.specialized_regions))
    r1, r2, r3 = run_three(I, probe, min(d['width'], d['height']))
    I.reached('die')
    compare(I, 'decimal-die-load', r1, r2, r3, same_result)


def body_alloc(I, case):
    margin = case['mode'] == 'margin'
    g = I.real('gap', -0.5, 0.5)
    if margin:
        I.assume(Or(Eq(g, 0), g >= 0.001, g <= -0.001))
    r = I.real('r', 0, 1)
    desc = [[[1.0, 1.0, 2.0, 2.0], {'A': r}], [[2.0 + g + 1.0, 0.5, 2.0, 1.0], {'A': 0.5, 'B': 0.25}]]

    def probe():
        try:
            a = Allocation([[list(c[0]), dict(c[1])] for c in desc])
            gr = a.griddify()
        except AssertionError:
            return ('rejected',)
        return ('accepted', gr.num_rectangles, tuple((x.rect.center.x, x.rect.center.y, x.rect.shape.w, x.rect.shape.h, x.depth) for x in gr.allocations))
    r1, r2, r3 = run_three(I, probe, 2.0)
    I.reached('alloc')
    compare(I, 'allocation-refinement', r1, r2, r3, same_result)


# ---------------------------------------------------------------------------------------------------------------
def pb_probe(I, case, want_sem=False):
    from fv.props import c07
    sm = SM.SATManager()
    q, sem, used = c07.make_ineq(I, sm, 'q', 2, case['op'], 7 if case['decomp'] else None, struct=([0, 1], case.get('pol', [0, 1])),
                                 conc=case.get('conc'))
    try:
        sm.pseudoboolencoding(q, case['decomp'])
    except Exception as e:
        return ['refused', str(e)]
    names = ['def_' + c07.VARS[v] for v in used]
    table = c07.ext_table(I, sm.clauses, names)
    if want_sem:
        return ['encoded', table, sem, used]
    return ['encoded', sorted([list(k), v] for k, v in table.items())]


def fresh_interpreter_probe(I, case):
    """concrete replays: the probe alone in a really fresh interpreter (hidden state cannot leak into the reference run)"""
    import json
    import os
    import subprocess
    code = ("import sys, json, os; sys.path[:0] = ['/verif', os.environ.get('FV_REPO', '/repo')]; from fv import symx; from fv.props import c20; "
            "d = json.loads(sys.stdin.read()); print(json.dumps(c20.pb_probe(symx.ConcreteI(d['values']), d['case'])))")
    p = subprocess.run(['/venv/bin/python', '-c', code], input=json.dumps(dict(values=I.values, case=case)), capture_output=True, text=True,
                       env=dict(os.environ, PYTHONHASHSEED='0'), timeout=300)
    return json.loads(p.stdout.strip().splitlines()[-1])


def body_pseudobool(I, case):
    from fv.props import c07
    fresh_state()
    try:
        for h in range(case['hist']):
            hm = SM.SATManager()
            c07.EARLIER[h % len(c07.EARLIER)](hm)
            # an unrelated design on the same variable names with opposite polarities / other bounds
            hm2 = SM.SATManager()
            hm2.pseudoboolencoding(5 * hm2.newvar('a') + 3 * (-hm2.newvar('b')) + 2 * hm2.newvar('c') >= 4, case['decomp'])
            hm3 = SM.SATManager()
            hm3.pseudoboolencoding(5 * hm3.newvar('a') + 3 * hm3.newvar('b') >= 6, case['decomp'])
            PB.Ineq()  # a call that receives the mutable defaults
        full = pb_probe(I, case, want_sem=True)
        r1 = full if full[0] != 'encoded' else ['encoded', sorted([list(k), v] for k, v in full[1].items())]
        if full[0] == 'encoded':
            # what a fresh process computes is the exact projection (C07); after any history it must be the same thing
            conds = []
            for bits, e in full[1].items():
                want = full[2](dict(zip(full[3], bits)))
                conds.append(want if e else Not(want))
            I.prove('encoding-after-earlier-encodings-is-still-exact', And(*conds))
    except Exception as e:  # the history (or the probe after it) fails although the probe alone works: a visible difference
        r1 = ['raised', type(e).__name__]
    if I.mode == 'symbolic':
        fresh_state()
        r2 = pb_probe(I, case)
    else:
        r2 = fresh_interpreter_probe(I, case)
    I.reached('pseudobool')
    I.prove('encoding-independent-of-earlier-encodings', r1 == r2)


def body_strop(I, case):
    from fv.props import c15
    R, C = 2, 3
    bits = [[I.bool(f'c{i}_{j}') for j in range(C)] for i in range(R)]

    def probe():
        arg = c15.SymMatrix(bits) if I.mode == 'symbolic' else ' '.join(''.join('1' if b else '0' for b in row) for row in bits)
        s = ST.Strop(arg)
        return (s.is_strop, tuple(sorted((t.trunk().rows.low, t.trunk().rows.high, t.trunk().columns.low, t.trunk().columns.high)
                                         for t in s.instances())), tuple(s._height), tuple(s._width))
    fresh_state()
    h = ST.Strop('111 010', [2.0, 3.0], [1.0, 1.0, 5.0])  # an earlier polygon with explicit sizes
    ST.Strop('1')                                          # and one that received the mutable defaults
    r1 = probe()
    fresh_state()
    r2 = probe()
    I.reached('strop')
    I.prove('strop-independent-of-earlier-polygons', r1 == r2)


def legal_structure(netname):
    """the concrete structure of the legaliser model of a design: constraint groups with their equation names, and the variable list"""
    from fv.props.c09 import NETS
    mods = NETS[netname]
    names = list(mods)
    net = Netlist({'Modules': mods, 'Nets': [names] if len(names) > 1 else []})
    ml, al, xl, yl, wl, hl, hyper, og = LF.netlist_to_utils(net)
    m = LF.Model(ml, al, xl, yl, wl, hl, 10.0, 8.0, hyper, 2.0, og, 0.9, 0.3, 1)
    m.time_advance(200)
    eqs = [[g, e.name] for g, es in list(m.gekko.constraints.items()) + list(m.gekko.macro_constraints.items()) for e in es]
    return eqs, [v.data['name'] for v in m.gekko.variable_list]


def fresh_interpreter_legal_structure(netname):
    """the same, computed alone in a really fresh interpreter: state the harness does not know about cannot leak into this reference"""
    import json
    import os
    import subprocess
    code = ("import sys, json, os; sys.path[:0] = ['/verif', os.environ.get('FV_REPO', '/repo')]; from fv.props import c20; "
            "print(json.dumps(c20.legal_structure(sys.argv[1])))")
    p = subprocess.run(['/venv/bin/python', '-c', code, netname], capture_output=True, text=True, env=dict(os.environ, PYTHONHASHSEED='0'), timeout=300)
    return json.loads(p.stdout.strip().splitlines()[-1])


def body_legal(I, case):
    from fv.props.c09 import NETS

    def build(name):
        mods = NETS[name]
        names = list(mods)
        net = Netlist({'Modules': mods, 'Nets': [names] if len(names) > 1 else []})
        ml, al, xl, yl, wl, hl, hyper, og = LF.netlist_to_utils(net)
        m = LF.Model(ml, al, xl, yl, wl, hl, 10.0, 8.0, hyper, 2.0, og, 0.9, 0.3, 1)
        m.time_advance(200)
        return m

    def probe():
        m = build(case['net'])
        vals = []
        for mi in range(len(m.M)):
            for ri in range(len(m.x[mi])):
                for nm, lst in (('x', m.x), ('y', m.y), ('w', m.w), ('h', m.h)):
                    lst[mi][ri].assign(I.real(f'{nm}{mi}_{ri}', 0.1, 9))
        out = []
        names = []
        for g, eqs in list(m.gekko.constraints.items()) + list(m.gekko.macro_constraints.items()):
            if g == 'radius':
                continue
            for e in eqs:
                names.append((g, e.name))
                v = symx.SymBool(symx.summarize(lambda: e.is_equation_met())) if I.mode == 'symbolic' else bool(e.is_equation_met())
                out.append(v)
        vnames = [v.data['name'] for v in m.gekko.variable_list]
        return names, out, vnames
    fresh_state()
    Rectangle.set_epsilon(1e-10)
    other = build('softNN')          # an earlier, unrelated legaliser model in the same process
    ET.turn_off_flag(1)              # what legalfloor.main does after building a model
    n1, o1, v1 = probe()
    fresh_state()
    Rectangle.set_epsilon(1e-10)
    n2, o2, v2 = probe()
    I.reached('legal')
    I.prove('legaliser-model-has-the-same-equations-and-variables', n1 == n2 and v1 == v2)
    # the model built after the history has the structure the same design gets in a fresh interpreter
    ref_eqs, ref_vars = fresh_interpreter_legal_structure(case['net'])
    fresh_state()
    Rectangle.set_epsilon(1e-10)
    other = build('softNN')
    ET.turn_off_flag(1)
    eqs_h, vars_h = legal_structure(case['net'])
    I.prove('legaliser-model-structure-as-in-a-fresh-interpreter', [list(x) for x in eqs_h] == [list(x) for x in ref_eqs] and list(vars_h) == list(ref_vars))
    I.prove('legaliser-equations-mean-the-same', And(*[Iff(a, b) for a, b in zip(o1, o2)]), side=True)


def body_defaults(I, case):
    c, d = I.int('c'), I.int('d')
    fresh_state()
    x = PB.Literal('x')
    first = PB.Ineq()
    q0 = (c * x + d >= 0)
    again = PB.Ineq()
    I.reached('defaults')
    I.prove('Ineq-defaults-not-contaminated', And(Eq(first.rhs, again.rhs), len(first.lhs.t) == len(again.lhs.t), Eq(first.lhs.c, again.lhs.c),
                                                   Eq(again.rhs, 0), len(again.lhs.t) == 0))
    e1 = PB.Expr() + c * x
    e2 = PB.Expr()
    I.prove('Expr-defaults-not-contaminated', And(len(e2.t) == 0, Eq(e2.c, 0)))
    s1 = ST.Strop('11 01')
    s1._height.append(99.0)
    s2 = ST.Strop('11 01')
    I.prove('Strop-defaults-not-contaminated', s2._height == [1, 1] and s2._width == [1, 1])
