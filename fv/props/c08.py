"""C08 -- rectilinear shape search admits exactly the k-box single-trunk orthogons."""
import itertools
from fv import symx
from fv.symx import And, Or, Not, Eq, Implies, Iff, Ite
import tools.rect.rect as RR
import tools.rect.satmanager as SM
import tools.rect.pseudobool as PB

PID = 'C08'
FUNCTIONS = ['rect.definecoords', 'rect.enforce_bb', 'rect.solve', 'rect.area', 'SATManager.*', 'pseudobool.* (cost constraint, ROBDD)']
BOUNDS = {'quick': 'grids 1x2, 2x2, 2x3 with k<=2 boxes, 3x2 with k=2 and 2x3 with k=3 (two branches on different sides of the trunk); 5 coordinate families (origin 0 / 1.5, unit / 0.75 / non-uniform '
                   'steps) and 3 mixed pairs (different origin and spacing on the two axes); 3 cost bounds in minimum-error mode with 2 occupancy patterns; ALL assignments of the cell variables (symbolic Booleans)',
          'thorough': '3x3 with k<=3, 3x2 with k=3'}
STUBS = ['SATManager.solve replaced by a recorder (the CNF is taken from the manager rect.solve built; no SAT call) for the model-set '
         'obligations; for the returned-rectangles obligation the real PySAT solver runs (concrete replays) or a z3-backed complete solver']
ASSUMPTIONS = ['cells form a product grid', 'minimum-error mode (ratio >= 1)', 'PySAT is a complete SAT procedure']
NOT_DECIDED = ['min-area mode (ratio < 1)', 'cells spanning several grid intervals', 'rect.main and the greedy helper (Windows DLL)']
MUST_REACH = ['cnf', 'returned']
FACTOR = 100


def setup():
    symx.install(PB)
    symx.install(SM)
    symx.install(RR)


def reset():
    PB.memory[:] = [0, 1]
    PB.mmap.clear()


COORDS = {
    'origin0-unit': lambda n: [float(i) for i in range(n + 1)],
    'origin1.5-unit': lambda n: [1.5 + i for i in range(n + 1)],
    'origin0-0.75': lambda n: [0.75 * i for i in range(n + 1)],
    'origin0-nonuniform': lambda n: [0.0, 1.0, 3.0, 3.5, 6.0][:n + 1],
    'origin2-nonuniform': lambda n: [2.0, 2.5, 4.5, 5.0, 8.0][:n + 1],
}
OCC = {
    'ramp': lambda r, c, R, C: [1.0, 0.75, 0.25, 0.5, 0.0, 1.0, 0.25, 0.75, 0.5][(r * C + c) % 9],
    'corner': lambda r, c, R, C: 1.0 if r == 0 and c == 0 else (0.5 if r == 0 or c == 0 else 0.0),
}


def cases(tier):
    grids = [(1, 2, 1), (1, 2, 2), (2, 2, 1), (2, 2, 2), (2, 3, 2), (3, 2, 2), (2, 3, 3)]   # (rows, columns, boxes)
    if tier == 'thorough':
        grids += [(3, 3, 2), (3, 3, 3), (3, 2, 3)]
    cs = []
    for (R, C, k) in grids:
        for fam in COORDS:
            for occ, difs in (('ramp', [-10**6, 0]), ('corner', [50])):
                for dif in difs:
                    cs.append(dict(R=R, C=C, k=k, fam=fam, occ=occ, dif=dif))
            for dif in (0, 60, 10**6):
                cs.append(dict(kind='ret', R=R, C=C, k=k, fam=fam, occ='corner', dif=dif))
        # different origins / steps on the two axes
        for fx, fy in (('origin2-nonuniform', 'origin0-unit'), ('origin0-unit', 'origin1.5-unit'), ('origin0-0.75', 'origin2-nonuniform')):
            cs.append(dict(R=R, C=C, k=k, fam=fx, famy=fy, occ='ramp', dif=-10**6))
            cs.append(dict(R=R, C=C, k=k, fam=fx, famy=fy, occ='corner', dif=50))
            cs.append(dict(kind='ret', R=R, C=C, k=k, fam=fx, famy=fy, occ='corner', dif=60))
    return cs


class Z3Solver:
    """complete SAT procedure standing in for PySAT in the symbolic run (returns one model)"""
    def __init__(self):
        self.cl = []

    def add_clause(self, c):
        self.cl.append(list(c))

    def solve(self):
        import z3
        s = z3.Solver()
        nv = max([abs(l) for c in self.cl for l in c] + [0])
        vs = [None] + [z3.Bool(f'v{i}') for i in range(1, nv + 1)]
        for c in self.cl:
            s.add(z3.Or(*[vs[l] if l > 0 else z3.Not(vs[-l]) for l in c]) if c else z3.BoolVal(False))
        if str(s.check()) != 'sat':
            return False
        m = s.model()
        self.model = [i if z3.is_true(m.eval(vs[i], model_completion=True)) else -i for i in range(1, nv + 1)]
        return True

    def get_model(self):
        return self.model


def body_ret(I, case):
    R, C, k = case['R'], case['C'], case['k']
    carrier, ifile, ip = build(case)
    saved = SM.Solver
    if I.mode == 'symbolic':
        SM.Solver = Z3Solver
    RR.print = lambda *a, **kw: None
    try:
        nxt, rects, q = RR.solve(carrier, ifile, 2.0, (case['dif'], 1), k)
    finally:
        SM.Solver = saved
        RR.__dict__.pop('print', None)
    I.reached('returned')
    xs, ys = COORDS[case['fam']](C), COORDS[case.get('famy', case['fam'])](R)
    coef = [2 * int(FACTOR * p * (x2 - x1) * (y2 - y1)) - int(FACTOR * (x2 - x1) * (y2 - y1)) for (x1, y1, x2, y2, p) in ip]

    def cost_of(combo):
        return sum(coef[r * C + c] for r in range(R) for c in range(C)
                   if any(q[0] <= r <= q[1] and q[2] <= c <= q[3] for q in combo))
    shapes = valid_shapes(R, C, k)
    exists = any(cost_of(cb) >= case['dif'] for cb in shapes)
    I.observe('found', bool(rects))
    I.prove('returns-a-shape-iff-one-meets-the-bound', bool(rects) == exists)
    if rects:
        try:
            combo = tuple((ys.index(y0), ys.index(y1) - 1, xs.index(x0), xs.index(x1) - 1) for (x0, y0, x1, y1) in rects)
        except ValueError:
            combo = None
        I.prove('returned-rectangles-are-the-boxes-of-an-admitted-shape', combo is not None and combo in shapes and cost_of(combo) >= case['dif'])
        I.prove('reported-next-bound', nxt == (cost_of(combo) + 1, 1) if combo else False)


class Recorder(SM.SATManager):
    last = None

    def solve(self):
        Recorder.last = self
        return False


def build(case):
    R, C = case['R'], case['C']
    xs, ys = COORDS[case['fam']](C), COORDS[case.get('famy', case['fam'])](R)
    ip = []
    for r in range(R):
        for c in range(C):
            ip.append((xs[c], ys[r], xs[c + 1], ys[r + 1], OCC[case['occ']](r, c, R, C)))
    carrier = RR.Carrier.__new__(RR.Carrier)
    carrier.input_problem = ip
    carrier.factor = FACTOR
    carrier.theoreticalBestArea = 1.0
    carrier.inibox = ip[0]
    RR.definecoords(carrier)
    ifile = {'Width': xs[-1] - xs[0], 'Height': ys[-1] - ys[0]}
    return carrier, ifile, ip


def valid_shapes(R, C, k):
    rects = [(r0, r1, c0, c1) for r0 in range(R) for r1 in range(r0, R) for c0 in range(C) for c1 in range(c0, C)]

    def disjoint(a, b):
        return a[1] < b[0] or b[1] < a[0] or a[3] < b[2] or b[3] < a[2]

    def abuts(t, b):
        """branch b abuts trunk t along one side within t's extent (rows grow with y: which side is irrelevant here)"""
        horiz = t[0] <= b[0] and b[1] <= t[1] and (b[3] + 1 == t[2] or t[3] + 1 == b[2])
        vert = t[2] <= b[2] and b[3] <= t[3] and (b[1] + 1 == t[0] or t[1] + 1 == b[0])
        return horiz or vert
    out = []
    for combo in itertools.product(rects, repeat=k):
        if all(disjoint(combo[i], combo[j]) for i in range(k) for j in range(i + 1, k)) and \
                all(abuts(combo[0], combo[i]) for i in range(1, k)):
            out.append(combo)
    return out


def body(I, case):
    if case.get('kind') == 'ret':
        return body_ret(I, case)
    import builtins
    R, C, k = case['R'], case['C'], case['k']
    carrier, ifile, ip = build(case)
    saved_print, saved_cls = builtins.print, SM.SATManager
    RR.satmanager.SATManager = Recorder
    RR.print = lambda *a, **kw: None
    try:
        out = RR.solve(carrier, ifile, 2.0, (case['dif'], 1), k)
    finally:
        RR.satmanager.SATManager = saved_cls
        RR.__dict__.pop('print', None)
    sm = Recorder.last
    I.reached('cnf')
    ncell = R * C
    X = [[I.bool(f'b{i}_{c}') for c in range(ncell)] for i in range(k)]
    names = {f'b{i}_{c}': X[i][c] for i in range(k) for c in range(ncell)}
    # ---- independent specification
    shapes = valid_shapes(R, C, k)

    def match(i, rect):
        return And(*[(X[i][r * C + c] if rect[0] <= r <= rect[1] and rect[2] <= c <= rect[3] else Not(X[i][r * C + c]))
                     for r in range(R) for c in range(C)])
    spec = Or(*[And(*[match(i, combo[i]) for i in range(k)]) for combo in shapes])
    coef = [2 * int(FACTOR * p * (x2 - x1) * (y2 - y1)) - int(FACTOR * (x2 - x1) * (y2 - y1)) for (x1, y1, x2, y2, p) in ip]
    cost = sum([Ite(Or(*[X[i][c] for i in range(k)]), coef[c], 0) for c in range(ncell)], 0)
    meets = cost >= case['dif']
    ext = exists_aux(I, sm, names)
    I.prove('admits-only-k-box-single-trunk-orthogons', Implies(ext, spec))
    I.prove('admitted-shapes-meet-the-cost-bound', Implies(ext, meets))
    if I.mode == 'symbolic' and R * C * k > 18:
        # big instance: the quantified query is replaced by one satisfiability query per orthogon of the specification
        # (each shape meeting the bound must extend to a model of the CNF); exhaustive over the specification's shapes
        ok, bad = True, None
        for combo in shapes:
            cost_c = sum(coef[r * C + c] for r in range(R) for c in range(C) if any(q[0] <= r <= q[1] and q[2] <= c <= q[3] for q in combo))
            if cost_c < case['dif']:
                continue
            asg = {f'b{i}_{r * C + c}': (combo[i][0] <= r <= combo[i][1] and combo[i][2] <= c <= combo[i][3])
                   for i in range(k) for r in range(R) for c in range(C)}
            if not cnf_sat_under(sm, asg):
                ok, bad = False, combo
                break
        if ok:
            I.prove('admits-every-orthogon-meeting-the-bound', True)
        else:
            pins = And(*[(X[i][r * C + c] if (bad[i][0] <= r <= bad[i][1] and bad[i][2] <= c <= bad[i][3]) else Not(X[i][r * C + c]))
                         for i in range(k) for r in range(R) for c in range(C)])
            I.prove('admits-every-orthogon-meeting-the-bound', Not(pins))  # yields the rejected orthogon as the counterexample
    else:
        I.prove('admits-every-orthogon-meeting-the-bound', Implies(And(spec, meets), ext))
    I.observe('nclauses', len(sm.clauses))


def cnf_sat_under(sm, asg):
    import z3
    vs = {}
    s = z3.Solver()
    for cl in sm.clauses:
        s.add(z3.Or(*[(vs.setdefault(l.v, z3.Bool(l.v)) if l.s else z3.Not(vs.setdefault(l.v, z3.Bool(l.v)))) for l in cl]) if cl else z3.BoolVal(False))
    r = s.check(*[(vs.setdefault(n, z3.Bool(n)) if v else z3.Not(vs.setdefault(n, z3.Bool(n)))) for n, v in asg.items()])
    assert str(r) in ('sat', 'unsat')
    return str(r) == 'sat'


def exists_aux(I, sm, names):
    """does the assignment of the user variables extend to a model of the CNF the real code generated?"""
    if I.mode == 'symbolic':
        import z3
        vs = {}
        for cl in sm.clauses:
            for l in cl:
                if l.v not in vs:
                    vs[l.v] = names[l.v].e if l.v in names else z3.Bool('aux!' + l.v)
        cnf = z3.And(*[z3.Or(*[vs[l.v] if l.s else z3.Not(vs[l.v]) for l in cl]) if cl else z3.BoolVal(False) for cl in sm.clauses])
        aux = [v for n, v in vs.items() if n not in names]
        return symx.SymBool(z3.Exists(aux, cnf) if aux else cnf)
    from pysat.solvers import Solver
    s = Solver()
    tt = {}
    for cl in sm.clauses:
        for l in cl:
            tt.setdefault(l.v, len(tt) + 1)
    for n in names:
        tt.setdefault(n, len(tt) + 1)
    for cl in sm.clauses:
        s.add_clause([tt[l.v] if l.s else -tt[l.v] for l in cl])
    r = s.solve(assumptions=[tt[n] if v else -tt[n] for n, v in names.items()])
    s.delete()
    return bool(r)
