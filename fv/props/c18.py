"""C18 -- Rectangle operations agree with plane geometry."""
from fv import symx
from fv.symx import And, Or, Not, Ite, Min, Max, Eq, Le, Implies, Iff
from fv import geo
from frame.geometry import geometry as G
from frame.geometry.geometry import Rectangle, Point, Shape

PID = 'C18'
FUNCTIONS = ['Rectangle.bounding_box', 'point_inside', 'is_inside', 'touches', 'overlap', 'area_overlap', '__mul__',
             '__eq__', 'duplicate', 'split_horizontal', 'split_vertical', 'split', 'rectangle_grid', 'x_cuttable',
             'y_cuttable', 'aspect_ratio']
BOUNDS = {'quick': 'two rectangles, all 8 numbers symbolic reals in [-1000,1000] (sizes in (0,1000]); grids <= 2x3; '
                   'overlap() decision with one axis symbolic (y from 3 band layouts) and transposed',
          'thorough': 'same, grids <= 3x3, 4 attribute combinations, 6 band layouts'}
ASSUMPTIONS = ['exact real arithmetic model (R); rounding effects are outside',
               'overlap(): the area tolerance is set to 1e-5 and areas within [tol/2, 2*tol] are not in the bound']
NOT_DECIDED = ['binary64 rounding in these operations', 'negative cut coordinates (the API reads x<0 as "halve")']
MUST_REACH = ['pair', 'cut', 'grid', 'overlap', 'cuttable']
EPS = 1e-10
AEPS = 1e-5


def setup():
    symx.install(G)


def reset():
    Rectangle._distance_epsilon = EPS
    Rectangle._area_epsilon = AEPS


REGIONS = ['_', 'dsp']


def mkrect(I, tag, region='_', fixed=False, hard=False, y=None):
    cx = I.real(tag + 'x', -1000, 1000)
    w = I.real(tag + 'w', 0, 1000)
    I.assume(w > 0)
    if y is None:
        cy = I.real(tag + 'y', -1000, 1000)
        h = I.real(tag + 'h', 0, 1000)
        I.assume(h > 0)
    else:
        cy, h = y
    kw = dict(center=Point(cx, cy), shape=Shape(w, h), region=region, fixed=fixed, hard=hard)
    return Rectangle(**kw), (cx, cy, w, h)


def same_attrs(p, r):
    return p.region == r.region and p.fixed == r.fixed and p.hard == r.hard


def cases(tier):
    cs = []
    for ra in (0, 1):
        for rb in (0, 1):
            cs.append(dict(op='pair', ra=ra, rb=rb))
    attrs = [(0, False, False), (1, True, False)] if tier == 'quick' else \
        [(0, False, False), (1, True, False), (0, False, True), (1, True, True)]
    for reg, fx, hd in attrs:
        cs.append(dict(op='cut', region=reg, fixed=fx, hard=hd))
        cs.append(dict(op='cuttable', region=reg, fixed=fx, hard=hd))
    grids = [(1, 1), (1, 2), (2, 1), (2, 2), (2, 3)] if tier == 'quick' else \
        [(r, c) for r in (1, 2, 3) for c in (1, 2, 3)]
    for (r, c) in grids:
        cs.append(dict(op='grid', rows=r, cols=c, region=1, fixed=True, hard=False))
    bands = [((2.0, 2.0), (2.5, 1.0)), ((2.0, 2.0), (3.0, 2.0)), ((2.0, 2.0), (5.0, 1.0))]
    if tier != 'quick':
        bands += [((2.0, 2.0), (2.0, 2.0)), ((2.0, 4.0), (2.5, 0.5)), ((1.0, 0.25), (1.0625, 0.125))]
    for b in bands:
        for tr in (0, 1):
            cs.append(dict(op='overlap', ya=list(b[0]), yb=list(b[1]), transposed=tr))
    return cs


def body(I, case):
    op = case['op']
    if op == 'pair':
        a, A = mkrect(I, 'a', REGIONS[case['ra']])
        b, B = mkrect(I, 'b', REGIONS[case['rb']], fixed=True)
        ba, bb = geo.box(*A), geo.box(*B)
        I.reached('pair')
        spec = geo.ovl_area(ba, bb)
        ab, ba_ = a.area_overlap(b), b.area_overlap(a)
        I.observe('area_overlap', ab)
        I.prove('area_overlap=common-area', Eq(ab, spec))
        I.prove('area_overlap-symmetric', Eq(ab, ba_))
        # containment / membership / touching
        I.prove('is_inside', Iff(a.is_inside(b), geo.box_inside(ba, bb)))
        px, py = I.real('px', -2000, 2000), I.real('py', -2000, 2000)
        I.prove('point_inside', Iff(a.point_inside(Point(px, py)), geo.p_in_closed(ba, px, py)))
        t = a.touches(b)
        e = EPS
        I.prove('touches', Iff(t, And(ba[0] <= bb[2] + e, bb[0] <= ba[2] + e, ba[1] <= bb[3] + e, bb[1] <= ba[3] + e)))
        I.prove('touches-symmetric', Iff(t, b.touches(a)))
        # equality
        I.prove('eq', Iff(a == b, And(A[0] == B[0], A[1] == B[1], A[2] == B[2], A[3] == B[3], a.region == b.region)))
        # intersection
        m, m2 = a * b, b * a
        exists = And(a.region == b.region, spec > 0)
        I.prove('mul-exists-iff', Iff(m is not None, exists))
        I.prove('mul-symmetric-existence', (m is None) == (m2 is None))
        I.observe('mul_exists', m is not None)
        if m is not None:
            bm = geo.rbox(m)
            I.prove('mul-inside-both', And(geo.box_inside(bm, ba), geo.box_inside(bm, bb)))
            I.prove('mul-area', Eq(m.area, spec))
            I.prove('mul-is-common-region', And(Eq(bm[0], Max(ba[0], bb[0])), Eq(bm[2], Min(ba[2], bb[2])),
                                                Eq(bm[1], Max(ba[1], bb[1])), Eq(bm[3], Min(ba[3], bb[3]))))
            I.prove('mul-attrs', same_attrs(m, a))
            if m2 is not None:
                I.prove('mul-symmetric', And(Eq(m.center.x, m2.center.x), Eq(m.center.y, m2.center.y),
                                             Eq(m.shape.w, m2.shape.w), Eq(m.shape.h, m2.shape.h)))
                I.prove('mul-attrs2', same_attrs(m2, b))
    elif op == 'cut':
        r, R = mkrect(I, 'a', REGIONS[case['region']], case['fixed'], case['hard'])
        b0 = geo.box(*R)
        px, py = I.real('px', -2000, 2000), I.real('py', -2000, 2000)
        x = I.real('cut', -2000, 2000)
        which = I.choice('which', 5)
        I.reached('cut')
        if which in (0, 1):
            I.assume(x >= 0)
        legal = And(b0[0] < x, x < b0[2]) if which == 0 else And(b0[1] < x, x < b0[3]) if which == 1 else True
        try:
            if which == 0:
                pieces = r.split_horizontal(x)
            elif which == 1:
                pieces = r.split_vertical(x)
            elif which == 2:
                pieces = r.split_horizontal()
            elif which == 3:
                pieces = r.split_vertical()
            else:
                pieces = r.split()
        except AssertionError:
            I.prove('cut-refused-only-outside', Not(legal))
            return
        I.prove('cut-accepted-only-inside', legal)
        boxes = [geo.rbox(p) for p in pieces]
        geo.tiling_obligations(I, 'cut', [b0], boxes, px, py)
        I.prove('cut-attrs', all(same_attrs(p, r) for p in pieces))
        I.prove('cut-area', Eq(pieces[0].area + pieces[1].area, r.area))
        I.prove('cut-sizes-positive', And(*[And(p.shape.w > 0, p.shape.h > 0) for p in pieces]))
        I.prove('cut-source-unchanged', And(r.center.x == R[0], r.center.y == R[1], r.shape.w == R[2], r.shape.h == R[3]))
        if which == 0:
            I.prove('cut-at-x', And(Eq(boxes[0][2], x), Eq(boxes[1][0], x)))
        if which == 1:
            I.prove('cut-at-y', And(Eq(boxes[0][3], x), Eq(boxes[1][1], x)))
        if which in (2, 3, 4):
            I.prove('halves-equal', And(Eq(pieces[0].shape.w, pieces[1].shape.w), Eq(pieces[0].shape.h, pieces[1].shape.h)))
        if which == 4:
            # halving reduces the larger dimension
            horizontal = Eq(pieces[0].shape.h, R[3])
            I.prove('split-longer-side', Implies(R[3] > R[2], Not(horizontal)))
            I.prove('split-longer-side2', Implies(R[2] > R[3], horizontal))
    elif op == 'cuttable':
        r, R = mkrect(I, 'a', REGIONS[case['region']], case['fixed'], case['hard'])
        b0 = geo.box(*R)
        x = I.real('cut', -2000, 2000)
        ratio = [0.01, 0.1, 0.25][I.choice('ratio', 3)]
        axis = I.choice('axis', 2)
        I.reached('cuttable')
        from fractions import Fraction
        rq = Fraction(ratio) if I.mode == 'symbolic' else ratio
        if axis == 0:
            c = r.x_cuttable(x, ratio)
            lo, hi, other = b0[0], b0[2], R[3]
        else:
            c = r.y_cuttable(x, ratio)
            lo, hi, other = b0[1], b0[3], R[2]
        I.observe('cuttable', c)
        I.prove('cuttable=>strictly-inside', Implies(c, And(lo < x, x < hi)))
        big = Max(R[2], R[3])
        thr = big * rq
        I.prove('no-sliver=>cuttable', Implies(And(x - lo > thr, hi - x > thr), c))
        thr2 = other * rq
        I.prove('cuttable=>no-sliver-wrt-other-side', Implies(c, And(x - lo > thr2, hi - x > thr2)))
    elif op == 'grid':
        r, R = mkrect(I, 'a', REGIONS[case['region']], case['fixed'], case['hard'])
        b0 = geo.box(*R)
        px, py = I.real('px', -2000, 2000), I.real('py', -2000, 2000)
        I.reached('grid')
        g = r.rectangle_grid(case['rows'], case['cols'])
        I.prove('grid-count', len(g) == case['rows'] * case['cols'])
        boxes = [geo.rbox(p) for p in g]
        geo.tiling_obligations(I, 'grid', [b0], boxes, px, py)
        I.prove('grid-inside', And(*[geo.box_inside(b, b0) for b in boxes]))
        I.prove('grid-attrs', all(same_attrs(p, r) for p in g))
        I.prove('grid-equal-size', And(*[And(Eq(p.shape.w * case['cols'], R[2]), Eq(p.shape.h * case['rows'], R[3])) for p in g]))
    elif op == 'overlap':
        ya, yb = tuple(case['ya']), tuple(case['yb'])
        a, A = mkrect(I, 'a', y=ya)
        b, B = mkrect(I, 'b', y=yb)
        if case['transposed']:
            a = Rectangle(center=Point(A[1], A[0]), shape=Shape(A[3], A[2]))
            b = Rectangle(center=Point(B[1], B[0]), shape=Shape(B[3], B[2]))
            A = (A[1], A[0], A[3], A[2])
            B = (B[1], B[0], B[3], B[2])
        spec = geo.ovl_area(geo.box(*A), geo.box(*B))
        I.reached('overlap')
        o = a.overlap(b)
        I.observe('overlap', o)
        from fractions import Fraction
        tol = Fraction(AEPS) if I.mode == 'symbolic' else AEPS
        I.prove('overlap-iff-area>tol', Iff(o, spec > tol))
        I.prove('overlap-symmetric', Iff(o, b.overlap(a)))
        I.prove('touching-or-disjoint=>no-overlap', Implies(spec <= 0, Not(o)))
