"""C19 -- every document FRAME produces is accepted back and says the same thing."""
import copy
from fv import symx, shimall
from fv.symx import And, Or, Not, Eq, Implies
from fv import geo
from fv.props import net_common as NC
from fv.props import alloc_common as AC
from frame.geometry.geometry import Rectangle, Point, Shape
from frame.die.die import Die
import frame.die.die as DIE
import frame.allocation.allocation as ALLOC
from frame.allocation.allocation import Allocation
from frame.netlist.netlist import Netlist
from frame.netlist.netlist_types import NamedHyperEdge
from frame.netlist.yaml_write_netlist import dump_yaml_namededges
from frame.utils import utils as U
import tools.netgen.netgen as NG
import tools.floorset_parser.floor_set_manager.manager as FSM
import tools.rect.rect_io as RIO
import tools.legalfloor.legalfloor as LF
import tools.legalfloor.expression_tree as ET
import tools.legalfloor.model as MD

PID = 'C19'
FUNCTIONS = ['Netlist.write_yaml / dump_yaml_modules / dump_yaml_edges (as C04)', 'Die.write_yaml', 'Die.__init__', 'Die.split_refinable_regions', 'Allocation.write_yaml', 'Allocation.__init__',
             'Allocation.refine/griddify', 'netgen.gen_grid/gen_chain/gen_ring/gen_star/gen_ring_star/gen_one_net/gen_htree/gen_modules',
             'dump_yaml_namededges', 'rect_io.solution_to_netlist', 'rect_io.get_netlist', 'legalfloor.Model.get_netlist',
             'netlist_to_utils', 'Netlist.__init__']
BOUNDS = {'quick': 'dies: 0-2 regions on symbolic breakpoints, before and after refinement; allocations: 6 templates before/after refine and '
                   'griddify; generator: chain/star/ring/h-tree/grid from size 1, one-net and ring-star from 2, up to n=6, grids <=3x3, '
                   'h-tree <=2 levels, area and die symbolic; named edges of arity 2-3; rect solutions and legaliser models for 4 designs',
          'thorough': 'same with n up to 8'}
STUBS = ['write_yaml -> tree in the symbolic run (concrete replays go through the real YAML text)',
         'string-built YAML (rect_io, legalfloor): numerals of symbolic values are printed as placeholder tokens, the text is parsed by the '
         'REAL ruamel parser, the tokens are substituted back; contract: str(float) is read back by ruamel as the same float',
         'random.gauss: arbitrary finite value', 'GEKKO objects only constructed (legaliser)']
ASSUMPTIONS = ['R model; one axis symbolic for dies/allocations']
NOT_DECIDED = ['FloorSet converter: module/geometry content and density scaling (numpy end to end); only its connection part (_parse_connections, write_yaml_FPEF) is decided', 'number formatting', 'rect.main / legalfloor.main drivers']
MUST_REACH = ['die', 'alloc', 'netgen', 'namededges', 'floorset-nets', 'rect-solution', 'rect-getnetlist', 'legal-getnetlist']
DELTA = 0.01


def setup():
    shimall.install_frame()
    for mod in (NG, RIO, LF, ET, MD, FSM):
        symx.install(mod)
    ET.math_sqrt = symx.MATH.sqrt
    MD.math_sqrt = symx.MATH.sqrt
    for mod in (LF, ET, MD):
        mod.print = lambda *a, **k: None


def reset():
    symx.ALLOW_STR = True
    symx.PLACEHOLDERS = None
    shimall.reset_epsilon()
    ET.named_variables.clear()
    ET.debug_print = 0


def cases(tier):
    cs = []
    for regs in ([], [[1, 2, 'lower', '#']], [[0, 1, 'full', 'dsp']], [[1, 2, 'lower', '#'], [2, 3, 'upper', 'dsp']]):
        for split in ((0, 2) if len(regs) < 2 or tier == 'thorough' else (0,)):
            cs.append(dict(kind='die', regions=regs, split=split))
    for name, maps, depths in (('one', [2], [1]), ('row2', [1, 2], [0, 1]), ('col2', [2, 3], [0, 0]), ('L3', [2, 3, 1], [0, 2, 1]),
                               ('gap2', [1, 0], [0, 0]), ('stairs3', [2, 1, 3], [0, 1, 0])):
        for op in ('none', 'refine', 'griddify'):
            cs.append(dict(kind='alloc', template=name, n=len(maps), maps=maps, depths=depths, op=op, transposed=0))
    nmax = 6 if tier == 'quick' else 8
    for topo, lo in (('chain', 1), ('star', 1), ('ring', 1), ('ring-star', 2), ('one-net', 2)):
        for n in range(lo, nmax + 1):
            cs.append(dict(kind='netgen', topo=topo, n=n))
    for lv in (1, 2):
        cs.append(dict(kind='netgen', topo='htree', n=lv))
    for r in (1, 2, 3):
        for c in (1, 2, 3):
            for centers in (0, 1):
                cs.append(dict(kind='netgen', topo='grid', n=r, m=c, centers=centers))
    cs.append(dict(kind='namededges'))
    cs.append(dict(kind='floorset-nets', nb2b=2, np2b=2))
    cs.append(dict(kind='floorset-nets', nb2b=1, np2b=1))
    for st in NC.structs(tier):   # Netlist.write_yaml is the writer the legalisation and placement stages use for their output files
        cs.append(dict(kind='netlist', struct=st))
    for s in NC.STRUCTS['quick'][:5] + NC.STRUCTS['quick'][9:]:   # incl. fixed terminals (bare and with a footprint)
        cs.append(dict(kind='rect-solution', struct=s))
    cs.append(dict(kind='rect-getnetlist', template='row2', n=2, maps=[1, 2], depths=[0, 0], transposed=0))
    cs.append(dict(kind='rect-getnetlist', template='L3', n=3, maps=[2, 3, 1], depths=[0, 0, 0], transposed=0))
    for net in ('softN', 'hard2', 'pair', 'hardsoft', 'fixed1'):
        cs.append(dict(kind='legal-getnetlist', net=net))
    return cs


OPTS = {'quick': dict(max_paths=20000, budget_s=900), 'thorough': dict(max_paths=200000, budget_s=1500)}
BANDS = {'full': (0, 4), 'lower': (0, 1), 'upper': (3, 4)}


def body(I, case):
    return globals()['body_' + case['kind'].replace('-', '_')](I, case)


def body_netlist(I, case):
    from fv.props import c04
    return c04.body(I, case)


# ------------------------------------------------------------------------------------------ dies
def rect_view(r):
    return (r.center.x, r.center.y, r.shape.w, r.shape.h, r.region)


def same_rect_sets(a, b):
    return len(a) == len(b) and And(*[Or(*[And(Eq(p[0], q[0]), Eq(p[1], q[1]), Eq(p[2], q[2]), Eq(p[3], q[3]), p[4] == q[4]) for q in b]) for p in a]) \
        and And(*[Or(*[And(Eq(p[0], q[0]), Eq(p[1], q[1]), Eq(p[2], q[2]), Eq(p[3], q[3]), p[4] == q[4]) for q in a]) for p in b])


def body_die(I, case):
    nb = max([2] + [j for (_, j, _, _) in case['regions']])
    b = [0.0]
    for k in range(nb):
        b.append(b[-1] + (I.real(f'g{k}', 1, 6) if case['split'] else I.real(f'g{k}', DELTA, 100)))
    W = b[-1]
    regions = []
    for (i, j, band, tag) in case['regions']:
        lo, hi = BANDS[band]
        regions.append([(b[i] + b[j]) / 2, (lo + hi) / 2.0, b[j] - b[i], float(hi - lo), tag])
    tree = {'width': W, 'height': 4.0}
    if regions:
        tree['regions'] = regions
    die = Die(tree)
    if case['split']:
        die.split_refinable_regions(2.0, case['split'])
    view0 = ([rect_view(r) for r in die.blockages], [rect_view(r) for r in die.specialized_regions], [rect_view(r) for r in die.ground_regions])
    doc1 = write(I, DIE, lambda: die.write_yaml())
    doc2 = write(I, DIE, lambda: die.write_yaml())
    I.reached('die')
    I.prove('die:writing-twice-gives-identical-documents', NC.tree_equal(doc1, doc2) if I.mode == 'symbolic' else doc1 == doc2)
    view1 = ([rect_view(r) for r in die.blockages], [rect_view(r) for r in die.specialized_regions], [rect_view(r) for r in die.ground_regions])
    I.prove('die:writing-does-not-alter-the-die', And(*[same_rect_sets(x, y) for x, y in zip(view0, view1)]))
    try:
        d2 = Die(doc1 if I.mode != 'symbolic' else normalise(doc1))
    except AssertionError as e:
        I.detail = f'rejected: {e}'
        I.prove('die:written-document-accepted', False)
        return
    I.prove('die:same-size', And(Eq(d2.width, die.width), Eq(d2.height, die.height)))
    I.prove('die:same-blockages', same_rect_sets([rect_view(r) for r in d2.blockages], view0[0]))
    I.prove('die:same-specialised-regions', same_rect_sets([rect_view(r) for r in d2.specialized_regions], view0[1]))


def write(I, module, fn):
    """run a writer: symbolically the YAML layer is the identity on trees; concretely the real text is produced"""
    if I.mode != 'symbolic':
        return fn()
    saved = module.write_yaml
    module.write_yaml = lambda data, filename=None: copy.deepcopy(data)
    try:
        return fn()
    finally:
        module.write_yaml = saved


# ------------------------------------------------------------------------------------------ allocations
def body_alloc(I, case):
    al, cells = AC.make_alloc(I, case)
    t = I.real('t', 0, 1)
    if case['op'] == 'refine':
        al = al.refine(t, 1)
    elif case['op'] == 'griddify':
        al = al.griddify()
    snap0 = AC.snapshot(al)
    doc1 = write(I, ALLOC, lambda: al.write_yaml())
    doc2 = write(I, ALLOC, lambda: al.write_yaml())
    I.reached('alloc')
    I.prove('alloc:writing-twice-gives-identical-documents', NC.tree_equal(doc1, doc2) if I.mode == 'symbolic' else doc1 == doc2)
    I.prove('alloc:writing-does-not-alter-the-allocation', same_cells(snap0, AC.snapshot(al)))
    try:
        a2 = Allocation(doc1 if I.mode != 'symbolic' else normalise(doc1))
    except AssertionError as e:
        I.detail = f'rejected: {e}'
        I.prove('alloc:written-document-accepted', False)
        return
    I.prove('alloc:same-cells-ratios-depths', same_cells(snap0, AC.snapshot(a2)))


def normalise(doc):
    """what the YAML layer does to python tuples: they come back as lists"""
    if isinstance(doc, (list, tuple)):
        return [normalise(x) for x in doc]
    if isinstance(doc, dict):
        return {k: normalise(v) for k, v in doc.items()}
    return doc


def same_cells(a, b):
    if len(a) != len(b):
        return False
    conds = []
    for p, q in zip(a, b):
        conds += [Eq(u, v) for u, v in zip(p['box'], q['box'])]
        conds += [p['depth'] == q['depth'], p['region'] == q['region'], AC.same_map(p['alloc'], q['alloc'])]
    return And(*conds)


# ------------------------------------------------------------------------------------------ generator
class FakeRandom:
    I = None
    k = 0

    @staticmethod
    def gauss(mu, sd):
        FakeRandom.k += 1
        return FakeRandom.I.real(f'gauss{FakeRandom.k}', -1000, 1000)


def body_netgen(I, case):
    area = I.real('area', 0.001, 1000)
    topo, n = case['topo'], case['n']
    if topo == 'grid':
        shape = None
        if case['centers']:
            shape = Shape(I.real('W', 1, 100), I.real('H', 1, 100))
            FakeRandom.I, FakeRandom.k = I, 0
            NG.random = FakeRandom
        data = NG.gen_grid(n, case['m'], area, bool(case['centers']), 0.1 if case['centers'] else 0, shape)
    else:
        data = {'chain': NG.gen_chain, 'star': NG.gen_star, 'ring': NG.gen_ring, 'ring-star': NG.gen_ring_star,
                'one-net': NG.gen_one_net, 'htree': NG.gen_htree}[topo](n, area)
    I.reached('netgen')
    doc = data if I.mode == 'symbolic' else U.write_yaml(data)
    try:
        net = Netlist(doc)
    except AssertionError as e:
        I.detail = f'rejected: {e}'
        I.prove('netgen:generated-document-accepted', False)
        return
    mods, nets = data['Modules'], data['Nets']
    I.prove('netgen:same-modules', [m.name for m in net.modules] == list(mods) and
            And(*[And(Eq(m.area(), mods[m.name]['area']), m.is_soft, m.num_rectangles == 0,
                      (m.center is None) == ('center' not in mods[m.name])) for m in net.modules]))
    I.prove('netgen:same-centres', And(*[And(Eq(m.center.x, mods[m.name]['center'][0]), Eq(m.center.y, mods[m.name]['center'][1]))
                                         for m in net.modules if 'center' in mods[m.name]]))
    want = [([x for x in e if isinstance(x, str)], ([x for x in e if not isinstance(x, str)] or [1])[0]) for e in nets]
    I.prove('netgen:same-nets', len(net.edges) == len(want) and And(*[And([m.name for m in e.modules] == w[0], Eq(e.weight, w[1]))
                                                                      for e, w in zip(net.edges, want)]))
    # the shape the topology's name promises
    count = {'chain': n, 'star': n, 'ring': n, 'ring-star': n, 'one-net': n, 'htree': None, 'grid': n * case.get('m', 1)}[topo]
    nedges = {'chain': n - 1, 'star': n - 1, 'ring': n, 'ring-star': 2 * (n - 1), 'one-net': 1, 'htree': None,
              'grid': n * (case.get('m', 1) - 1) + (n - 1) * case.get('m', 1)}[topo]
    if count is not None:
        I.prove('netgen:size-as-requested', len(net.modules) == count and len(net.edges) == nedges)


# ------------------------------------------------------------------------------------------ named edges
def body_namededges(I, case):
    w = I.real('w', 0.01, 100)
    edges = [NamedHyperEdge(['A', 'B'], w), NamedHyperEdge(['B', 'C', 'A'], 1), NamedHyperEdge(['C', 'A'], 2.5)]
    before = [(list(e.modules), e.weight) for e in edges]
    d1 = dump_yaml_namededges(edges)
    d1c = copy.deepcopy(d1) if I.mode != 'symbolic' else [list(x) for x in d1]
    d2 = dump_yaml_namededges(edges)
    I.reached('namededges')
    I.prove('namededges:source-objects-unaltered', And(*[And(list(e.modules) == b[0], Eq(e.weight, b[1])) for e, b in zip(edges, before)]))
    I.prove('namededges:writing-twice-gives-identical-documents', NC.tree_equal(d1c, d2))
    try:
        net = Netlist({'Modules': {k: {'area': 1.0} for k in 'ABC'}, 'Nets': [list(x) for x in d2]})
    except AssertionError as e:
        I.detail = f'rejected: {e}'
        I.prove('namededges:document-accepted', False)
        return
    I.prove('namededges:same-nets', And(*[And([m.name for m in e.modules] == b[0], Eq(e.weight, b[1])) for e, b in zip(net.edges, before)]))


def body_floorset_nets(I, case):
    """the connection part of the FloorSet converter (pure Python once the arrays are rows of numbers): block-to-block and pin-to-block
    connections with arbitrary non-negative weights become nets that the netlist reader accepts and that say the same thing"""
    inst = FSM.FloorSetInstance.__new__(FSM.FloorSetInstance)
    b2b = [[0, 1, I.real('wb0', 0, 100)], [1, 2, I.real('wb1', 0, 100)]][:case['nb2b']]
    p2b = [[0, 0, I.real('wp0', 0, 100)], [1, 2, I.real('wp1', 0, 100)]][:case['np2b']]
    inst._fp_data = {'b2b_connectivity': b2b, 'p2b_connectivity': p2b}
    inst.num_modules, inst._d, inst._nets = 3, None, []
    inst._modules = {'M0': {'area': 4.0, 'center': [1.0, 1.0]}, 'M1': {'area': 2.0, 'center': [4.0, 1.0]}, 'M2': {'area': 3.0, 'center': [4.0, 4.0]},
                     'T0': {'center': [0.0, 2.0], 'terminal': True}, 'T1': {'center': [5.0, 5.0], 'terminal': True}}
    inst._width, inst._height = 5.0, 5.0
    inst._parse_connections()
    before = [(list(e.modules), e.weight) for e in inst.nets]
    doc1 = write(I, FSM, lambda: inst.write_yaml_FPEF())
    doc2 = write(I, FSM, lambda: inst.write_yaml_FPEF())
    I.reached('floorset-nets')
    I.prove('floorset:writing-twice-identical', NC.tree_equal(doc1, doc2) if I.mode == 'symbolic' else doc1 == doc2)
    I.prove('floorset:nets-unaltered-by-writing', And(*[And(list(e.modules) == b[0], Eq(e.weight, b[1])) for e, b in zip(inst.nets, before)]))
    try:
        net = Netlist(doc1)
    except AssertionError as e:
        I.detail = f'rejected: {e}'
        I.prove('floorset:emitted-netlist-accepted', False)
        return
    I.prove('floorset:same-nets-and-weights', len(net.edges) == len(before) and And(*[
        And([m.name for m in e.modules] == b[0], Eq(e.weight, b[1])) for e, b in zip(net.edges, before)]))
    I.prove('floorset:same-modules', [m.name for m in net.modules] == list(inst.modules))
    # every connection of the source data is there, in order, with its own weight when positive
    src = [([f'M{r[0]}', f'M{r[1]}'], r[2]) for r in b2b] + [([f'T{r[0]}', f'M{r[1]}'], r[2]) for r in p2b]
    I.prove('floorset:nets-follow-the-connectivity-data', And(*[And(b[0] == s_[0], Implies(s_[1] > 0, Eq(b[1], s_[1]))) for b, s_ in zip(before, src)]))


# ------------------------------------------------------------------------------------------ string-built netlists
def parse_text(I, fn):
    """run a string builder and parse its text with the real ruamel parser (placeholders for symbolic numerals)"""
    if I.mode != 'symbolic':
        return fn()
    symx.PLACEHOLDERS = {}
    try:
        text = fn()
        table = symx.PLACEHOLDERS
    finally:
        symx.PLACEHOLDERS = None
    tree = U.read_yaml(text)
    return symx.substitute_placeholders(tree, table)


def body_rect_solution(I, case):
    tree, specs, nspecs = NC.build_doc(I, case['struct'])
    try:
        n = Netlist(tree)
    except AssertionError as e:
        I.discard(f'source rejected {e}')
    # the normalisation stage replaces the shape of the first soft module by two boxes
    result = {}
    for m in n.modules:
        if m.is_soft:
            bx = I.real('bx', 0, 50)
            result[m.name] = [(bx, 1.0, 2.0, 2.0), (bx + 1.5, 1.0, 1.0, 1.0)]
            break
    before = [NC.module_view(m) for m in n.modules]
    try:
        doc = parse_text(I, lambda: RIO.solution_to_netlist(n, result))
    except Exception as e:
        if "I don't know what to do with module" in str(e):
            I.reached('rect-solution-refused')  # explicit refusal (a module without shape or centre): no document is produced
            return
        raise
    doc2 = parse_text(I, lambda: RIO.solution_to_netlist(n, result))
    I.reached('rect-solution')
    I.prove('rect-solution:source-unaltered', And(*[NC.same_view(a, NC.module_view(m)) for a, m in zip(before, n.modules)]))
    I.prove('rect-solution:writing-twice-identical', NC.tree_equal(doc, doc2) if I.mode == 'symbolic' else doc == doc2)
    try:
        n2 = Netlist(doc)
    except AssertionError as e:
        I.detail = f'rejected: {e}'
        I.prove('rect-solution:emitted-netlist-accepted', False)
        return
    I.prove('rect-solution:same-modules', [m.name for m in n2.modules] == [m.name for m in n.modules])
    for m, m2 in zip(n.modules, n2.modules):
        I.prove('rect-solution:same-kind', (m.is_soft, m.is_hard, m.is_fixed, m.is_terminal, m.flip) == (m2.is_soft, m2.is_hard, m2.is_fixed, m2.is_terminal, m2.flip))
        I.prove('rect-solution:same-areas', sorted(m.area_regions) == sorted(m2.area_regions) and And(*[Eq(m.area(k), m2.area(k)) for k in m.area_regions]))
        if m.name in result:
            want = [(b[0], b[1], b[2], b[3]) for b in result[m.name]]
        else:
            want = [(r.center.x, r.center.y, r.shape.w, r.shape.h) for r in m.rectangles]
        got = [(r.center.x, r.center.y, r.shape.w, r.shape.h) for r in m2.rectangles]
        I.prove('rect-solution:same-shapes', len(got) == len(want) and And(*[Or(*[And(*[Eq(u, v) for u, v in zip(p, q)]) for q in got]) for p in want]))
    I.prove('rect-solution:same-nets-and-weights', len(n.edges) == len(n2.edges) and And(*[
        And([x.name for x in e.modules] == [x.name for x in e2.modules], Eq(e.weight, e2.weight)) for e, e2 in zip(n.edges, n2.edges)]))


def body_rect_getnetlist(I, case):
    al, cells = AC.make_alloc(I, case)
    tree = [[list(a.rect.vector_spec[:4]), dict(a.alloc)] for a in al.allocations]
    if I.mode == 'symbolic':
        saved = RIO.Allocation
        RIO.Allocation = lambda name: Allocation(tree)
        try:
            n = parse_netlist_from(I, lambda: RIO.get_netlist(None, 'alloc.yaml'))
        finally:
            RIO.Allocation = saved
    else:
        n = RIO.get_netlist(None, U.write_yaml(tree))
    I.reached('rect-getnetlist')
    for m in AC.MODS:
        if any(m in c['alloc'] for c in cells):
            mod = n.get_module(m)
            I.prove('rect-getnetlist:module-area-is-allocated-area', Eq(mod.area(), AC.module_area(cells, m)))
            I.prove('rect-getnetlist:module-centre-is-centroid', And(Eq(mod.center.x * AC.module_area(cells, m), AC.module_moment(cells, m, 0)),
                                                                    Eq(mod.center.y * AC.module_area(cells, m), AC.module_moment(cells, m, 1))))


def parse_netlist_from(I, fn):
    """RIO.get_netlist builds text and calls Netlist(text) itself: intercept the text with the placeholder technique"""
    symx.PLACEHOLDERS = {}
    saved = RIO.Netlist
    out = {}

    def fake_netlist(text):
        table = symx.PLACEHOLDERS
        symx.PLACEHOLDERS = None
        tree = symx.substitute_placeholders(U.read_yaml(text), table)
        out['n'] = Netlist(tree)
        return out['n']
    RIO.Netlist = fake_netlist
    try:
        return fn()
    finally:
        RIO.Netlist = saved
        symx.PLACEHOLDERS = None


def body_legal_getnetlist(I, case):
    from fv.props.c09 import NETS
    mods = NETS[case['net']]
    names = list(mods)
    w = I.real('w', 0.01, 100)
    tree = {'Modules': mods, 'Nets': [names + [w]] if len(names) > 1 else []}
    net = Netlist(tree)
    ml, al, xl, yl, wl, hl, hyper, og = LF.netlist_to_utils(net)
    m = LF.Model(ml, al, xl, yl, wl, hl, 10.0, 8.0, hyper, 2.0, og, 0.9, 0.3, 1)
    # the legaliser moved things: every rectangle of a soft module gets a symbolic place
    for mi in range(len(m.M)):
        if net.modules[mi].is_soft:
            for ri in range(len(m.x[mi])):
                m.x[mi][ri].assign(I.real(f'x{mi}_{ri}', 0.5, 9.5))
    want = [[(m.x[mi][ri].evaluate(), m.y[mi][ri].evaluate(), m.w[mi][ri].evaluate(), m.h[mi][ri].evaluate())
             for ri in range(len(m.x[mi]))] for mi in range(len(m.M))]
    if I.mode == 'symbolic':
        saved = LF.Netlist
        out = {}
        symx.PLACEHOLDERS = {}

        def fake(text):
            table = symx.PLACEHOLDERS
            symx.PLACEHOLDERS = None
            return Netlist(symx.substitute_placeholders(U.read_yaml(text), table))
        LF.Netlist = fake
        try:
            n2 = m.get_netlist()
        except AssertionError as e:
            I.detail = f'rejected: {e}'
            I.reached('legal-getnetlist')
            I.prove('legal-getnetlist:emitted-netlist-accepted', False)
            return
        finally:
            LF.Netlist = saved
            symx.PLACEHOLDERS = None
    else:
        try:
            n2 = m.get_netlist()
        except AssertionError as e:
            I.reached('legal-getnetlist')
            I.prove('legal-getnetlist:emitted-netlist-accepted', False)
            return
    I.reached('legal-getnetlist')
    I.prove('legal-getnetlist:same-modules', [x.name for x in n2.modules] == names)
    for mi, (a, b) in enumerate(zip(net.modules, n2.modules)):
        I.prove('legal-getnetlist:same-kind', (a.is_soft, a.is_hard, a.is_fixed) == (b.is_soft, b.is_hard, b.is_fixed))
        if a.is_soft:
            I.prove('legal-getnetlist:same-area', Eq(a.area(), b.area()))
        got = [(r.center.x, r.center.y, r.shape.w, r.shape.h) for r in b.rectangles]
        I.prove('legal-getnetlist:same-shapes', len(got) == len(want[mi]) and And(*[Or(*[And(*[Eq(u, v) for u, v in zip(p, q)]) for q in got]) for p in want[mi]]))
    I.prove('legal-getnetlist:same-nets-and-weights', len(net.edges) == len(n2.edges) and And(*[
        And([x.name for x in e.modules] == [x.name for x in e2.modules], Eq(e.weight, e2.weight)) for e, e2 in zip(net.edges, n2.edges)]))
