"""C11 -- die refinement keeps the tiling, reaches the count and bounds the aspect ratio."""
from fractions import Fraction
from fv import symx, shimall
from fv.symx import And, Or, Not, Eq, Implies, Iff, Count, Max, Le
from fv import geo
from frame.geometry.geometry import Rectangle, Point, Shape, split_rectangles
from frame.die.die import Die

PID = 'C11'
FUNCTIONS = ['split_rectangles', 'Rectangle.split', 'Rectangle.aspect_ratio', 'Rectangle.rectangle_grid', 'Rectangle.duplicate',
             'Die.split_refinable_regions', 'Die.initial_grid', 'Die.floorplanning_rectangles', 'Die.__init__']
BOUNDS = {'quick': 'one or two starting rectangles, widths symbolic in [h/8, 8h], heights from {1,2} (and transposed); r in '
                   '{1.42,1.5,1.9,2,3}; n in 1..4; grids up to 3x3; a die of height 2 with one blockage',
          'thorough': 'n up to 6, two rectangles with different tags, die with blockage and specialised region'}
ASSUMPTIONS = ['R model', 'aspect ratio of the inputs at most 8 (phase 1 needs at most 3 halvings)']
NOT_DECIDED = ['symbolic r', 'input aspect ratios above 8', 'rounding']
MUST_REACH = ['split', 'grid', 'die-split']
RS = [1.42, 1.5, 1.9, 2.0, 3.0]


def setup():
    shimall.install_frame()


def reset():
    symx.ALLOW_STR = True
    shimall.reset_epsilon()


def cases(tier):
    cs = []
    ns = (1, 2, 3, 4) if tier == 'quick' else (1, 2, 3, 4, 5, 6)
    for r in RS:
        for n in ns:
            for tr in (0, 1):
                cs.append(dict(kind='split', hs=[1], r=r, n=n, transposed=tr))
            if n >= 2:
                cs.append(dict(kind='split', hs=[1, 2], r=r, n=n, transposed=0))
                if tier == 'thorough':
                    cs.append(dict(kind='split', hs=[2, 1], r=r, n=n, transposed=1))
    # tiny regions (height 2^-10, area <= 8e-6: below the class-wide AREA tolerance of 1e-5 but 10^7 times the distance tolerance):
    # the aspect-ratio clause holds for them as for any other region
    for r in RS:
        for n in (1, 2):
            cs.append(dict(kind='split', hs=[0.0009765625], r=r, n=n, transposed=(n + len(cs)) % 2))
    for rows in (1, 2, 3):
        for cols in (1, 2, 3):
            if rows + cols > 1:
                cs.append(dict(kind='grid', rows=rows, cols=cols))
    cs.append(dict(kind='grid', rows=1, cols=1))
    for r in (1.5, 2.0):
        for n in ((2, 3) if tier == 'quick' else (2, 3, 4, 5)):
            cs.append(dict(kind='die', r=r, n=n, spec=(tier == 'thorough')))
        for n in (1, 3):
            cs.append(dict(kind='die', r=r, n=n, spec=True, noground=True))   # a die completely covered by tagged regions and a blockage
    return cs


OPTS = {'quick': dict(max_paths=30000, budget_s=900), 'thorough': dict(max_paths=300000, budget_s=1500)}


def ratio_le(w, h, r):
    """max(w/h, h/w) <= r, cross-multiplied (w, h > 0)"""
    return And(w <= r * h, h <= r * w)


def body(I, case):
    px, py = I.real('px', -1, 100), I.real('py', -1, 100)
    kind = case['kind']
    if kind == 'split':
        r = case['r']
        rq = Fraction(r) if I.mode == 'symbolic' else r
        rects, boxes = [], []
        x0 = 0
        tags = ['_', 'dsp']
        for k, h in enumerate(case['hs']):
            w = I.real(f'w{k}', h / 8.0, 8.0 * h)
            if case['transposed']:
                rc = Rectangle(center=Point(h / 2.0, x0 + w / 2), shape=Shape(float(h), w), region=tags[k])
                boxes.append((0.0, x0, float(h), x0 + w))
            else:
                rc = Rectangle(center=Point(x0 + w / 2, h / 2.0), shape=Shape(w, float(h)), region=tags[k])
                boxes.append((x0, 0.0, x0 + w, float(h)))
            rects.append(rc)
            x0 = x0 + w
        try:
            out = split_rectangles(list(rects), r, case['n'])
        except (AssertionError, IndexError, ZeroDivisionError) as e:
            I.detail = f"raised {type(e).__name__}: {e}"
            I.prove('split-succeeds', False)
            return
        I.reached('split')
        I.observe('count', len(out))
        check_pieces(I, 'split', rects, boxes, out, case['n'], rq, px, py)
    elif kind == 'grid':
        W = I.real('W', 0.01, 100)
        HH = float(case['rows'])  # keeps y_step = H/rows exact in binary64 (the R model has no rounding)
        die = Die({'width': W, 'height': HH})
        try:
            die.initial_grid(case['rows'], case['cols'])
        except AssertionError:
            I.prove('grid-refused-only-1x1', case['rows'] + case['cols'] <= 1 + 1 and case['rows'] * case['cols'] == 1)
            return
        I.reached('grid')
        refinable, fixed = die.floorplanning_rectangles()
        I.prove('grid-count', len(refinable) == case['rows'] * case['cols'] and len(fixed) == 0)
        nb = [geo.rbox(x) for x in refinable]
        geo.tiling_obligations(I, 'grid', [(0, 0, W, HH)], nb, px, py)
        I.prove('grid-tags', all(x.region == '_' and not x.fixed for x in refinable))
    else:
        r = case['r']
        rq = Fraction(r) if I.mode == 'symbolic' else r
        b1 = I.real('b1', 0.5, 8)
        b2 = b1 + I.real('g2', 0.5, 8)
        regions = [[b1 / 2, 0.5, b1, 1.0, '#']]
        if case['spec']:
            regions.append([b1 / 2, 1.5, b1, 1.0, 'dsp'])
        if case.get('noground'):
            regions.append([(b1 + b2) / 2, 1.0, b2 - b1, 2.0, 'bram'])
        die = Die({'width': b2, 'height': 2, 'regions': regions})
        before_ref, before_fixed = die.floorplanning_rectangles()
        before = list(before_ref)
        bl = list(die.blockages)
        bl_boxes = [geo.rbox(x) for x in bl]
        try:
            die.split_refinable_regions(r, case['n'])
        except (AssertionError, IndexError, ZeroDivisionError) as e:
            I.detail = f"raised {type(e).__name__}: {e}"
            I.prove('die-split-succeeds', False)
            return
        I.reached('die-split')
        after, fixed = die.floorplanning_rectangles()
        check_pieces(I, 'die', before, [geo.rbox(x) for x in before], after, case['n'], rq, px, py)
        I.prove('blockages-untouched', len(die.blockages) == len(bl) and all(a is b for a, b in zip(die.blockages, bl)) and
                And(*[And(*[Eq(u, v) for u, v in zip(geo.rbox(x), bb)]) for x, bb in zip(die.blockages, bl_boxes)]))
        I.prove('lists-by-tag', all(x.region == '_' for x in die.ground_regions) and all(x.region != '_' for x in die.specialized_regions))


def check_pieces(I, label, rects, boxes, out, n, rq, px, py):
    I.prove(label + ':count>=n', len(out) >= n)
    nb = [geo.rbox(x) for x in out]
    geo.tiling_obligations(I, label, boxes, nb, px, py)
    for x, bx in zip(out, nb):
        j = I.pick([geo.box_inside(bx, ob) for ob in boxes])
        I.prove(label + ':piece-inside-its-source', j >= 0 and geo.box_inside(bx, boxes[j]))
        if j >= 0:
            I.prove(label + ':piece-carries-tag', x.region == rects[j].region and x.fixed == rects[j].fixed and x.hard == rects[j].hard)
        I.prove(label + ':aspect-ratio<=r', ratio_le(x.shape.w, x.shape.h, rq))
