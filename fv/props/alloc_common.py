"""Shared harness for C02 / C12: Allocation.refine / uniform_refinement_depth / griddify."""
import itertools
from fractions import Fraction
from fv import symx
from fv.symx import And, Or, Not, Ite, Eq, Implies, Iff, Min, Max, Le
from fv import geo
from frame.geometry import geometry as G
from frame.geometry.geometry import Rectangle, Point, Shape
from frame.allocation import allocation as A
from frame.allocation.allocation import Allocation

FUNCTIONS = ['Allocation.__init__', '_parse_yaml_tree', '_calculate_bounding_box', '_check_no_overlap',
             '_calculate_areas_and_centers', 'refine', 'must_be_refined', 'max_refinement_depth', '_split_allocation',
             'uniform_refinement_depth', 'griddify', 'Rectangle.split/split_horizontal/split_vertical',
             'x_cuttable/y_cuttable', 'gather_boundaries', 'parse_yaml_rectangle', 'Rectangle.overlap/area_overlap']
DELTA = 1e-3
EPS = 1e-10
ASSUMPTIONS = ['R model (exact reals); tolerances preset to 1e-10 / 1e-5; separation margin 1e-3 between distinct boundary '
               'coordinates on the symbolic axis',
               'pre-states on which the Allocation constructor rejects the INPUT (overlap, module with zero total area) are '
               'discarded, not reported',
               'one axis symbolic at a time: cells are (x symbolic, y from concrete bands) and the transposed run']
MODS = ['A', 'B']


def setup():
    symx.install(G)
    symx.install(A)


def reset():
    symx.ALLOW_STR = True  # only assertion messages format numbers in this code
    Rectangle._distance_epsilon = EPS
    Rectangle._area_epsilon = 1e-5


# ---- layouts: partition templates over symbolic breakpoints b0<b1<... on one axis, concrete bands on the other ----
# a cell is (i, j, ylo, yhi): it spans [b_i, b_j] x [ylo, yhi]
TEMPLATES = {
    'one': [(0, 1, 0, 1)],
    'one-tall': [(0, 1, 0, 2)],
    'row2': [(0, 1, 0, 1), (1, 2, 0, 1)],
    'col2': [(0, 1, 0, 1), (0, 1, 1, 2)],
    'gap2': [(0, 1, 0, 1), (2, 3, 0, 1)],
    'offset2': [(0, 2, 0, 1), (1, 3, 1, 2)],
    'tallshort2': [(0, 1, 0, 2), (1, 2, 0, 1)],
    'row3': [(0, 1, 0, 1), (1, 2, 0, 1), (2, 3, 0, 1)],
    'L3': [(0, 2, 0, 1), (0, 1, 1, 2), (1, 2, 1, 2)],
    'T3': [(0, 1, 0, 2), (1, 2, 0, 1), (1, 2, 1, 2)],
    'col3': [(0, 1, 0, 1), (0, 1, 1, 2), (0, 1, 2, 3)],
    'stairs3': [(0, 1, 0, 3), (1, 2, 0, 1), (2, 3, 1, 3)],
    'grid4': [(0, 1, 0, 1), (1, 2, 0, 1), (0, 1, 1, 2), (1, 2, 1, 2)],
    'row4': [(0, 1, 0, 1), (1, 2, 0, 1), (2, 3, 0, 1), (3, 4, 0, 1)],
    'mix4': [(0, 2, 0, 1), (2, 3, 0, 2), (0, 1, 1, 2), (1, 2, 1, 2)],
}
MAPS = [[], ['A'], ['A', 'B'], ['B']]


def make_alloc(I, case):
    """build the pre-state through the real constructor; returns (Allocation, cells) where cells are the
    harness's own records: dict(box, alloc{m:ratio}, depth, fixed)"""
    tr = case.get('transposed', 0)
    sym_ratio = case.get('sym_ratio', True)
    desc, cells = [], []
    if case['template'] == 'free2':
        # two cells in given bands with unconstrained positions on the symbolic axis (overlaps are rejected by the ctor)
        geom = []
        xs = []
        for i, (lo, hi) in enumerate(case['bands']):
            lx = I.real(f'lx{i}', 0, 100)
            w = I.real(f'w{i}', DELTA, 100)
            geom.append((lx, w, lo, hi))
            xs += [lx, lx + w]
        for a, b in itertools.combinations(xs, 2):
            I.assume(Or(Eq(a, b), a - b >= DELTA, b - a >= DELTA))
    else:
        tpl = TEMPLATES[case['template']]
        nb = max(c[1] for c in tpl)
        b = [I.real('b0', 0, 50)]
        for k in range(nb):
            b.append(b[-1] + I.real(f'g{k}', DELTA, 50))
        geom = [(b[i], b[j] - b[i], lo, hi) for (i, j, lo, hi) in tpl]
    n = len(geom)
    for i, (lx, w, lo, hi) in enumerate(geom):
        cx = lx + w / 2
        cy, h = (lo + hi) / 2.0, float(hi - lo)
        mp = MAPS[case['maps'][i]]
        fixed = bool(case.get('fixed', [0] * n)[i])
        alloc = {}
        for m in mp:
            if fixed:
                alloc[m] = 1.0
            elif sym_ratio:
                alloc[m] = I.real(f'r{i}{m}', 0, 1)
            else:
                alloc[m] = case['ratios'][i][m]
        depth = case.get('depths', [0] * n)[i]
        if tr:
            spec = [cy, cx, h, w]
            box = (float(lo), lx, float(hi), lx + w)
        else:
            spec = [cx, cy, w, h]
            box = (lx, float(lo), lx + w, float(hi))
        if fixed:
            r = Rectangle(center=Point(spec[0], spec[1]), shape=Shape(spec[2], spec[3]), fixed=True)
            desc.append((r, dict(alloc), depth))
        else:
            desc.append((spec, dict(alloc), depth))
        cells.append(dict(box=box, alloc=dict(alloc), depth=depth, fixed=fixed, w=spec[2], h=spec[3]))
    try:
        al = Allocation(desc)
    except (AssertionError, ZeroDivisionError):
        I.discard('constructor rejects the input pre-state')
    return al, cells


def snapshot(al):
    out = []
    for a in al.allocations:
        out.append(dict(box=geo.rbox(a.rect), alloc=dict(a.alloc), depth=a.depth, fixed=a.rect.fixed,
                        w=a.rect.shape.w, h=a.rect.shape.h, region=a.rect.region))
    return out


def module_area(cells, m):
    return sum([c['alloc'][m] * (c['box'][2] - c['box'][0]) * (c['box'][3] - c['box'][1]) for c in cells if m in c['alloc']], 0)


def module_moment(cells, m, axis):
    return sum([c['alloc'][m] * (c['box'][2] - c['box'][0]) * (c['box'][3] - c['box'][1]) *
                ((c['box'][axis] + c['box'][axis + 2]) / 2) for c in cells if m in c['alloc']], 0)


def same_map(a, b):
    return set(a) == set(b) and And(*[Eq(a[k], b[k]) for k in a])


def parent_of(I, old, c):
    """index of the old cell that contains new cell c (guessed from a model, then proved by the caller)"""
    return I.pick([geo.box_inside(c['box'], o['box']) for o in old])


def conservation(I, label, old, new, px, py, via_api=None):
    geo.tiling_obligations(I, label + ':tiling', [o['box'] for o in old], [c['box'] for c in new], px, py)
    for m in MODS:
        if not any(m in o['alloc'] for o in old):
            I.prove(label + ':no-new-module', not any(m in c['alloc'] for c in new))
            continue
        I.prove(label + ':module-area', Eq(module_area(new, m), module_area(old, m)))
        I.prove(label + ':module-centroid-x', Eq(module_moment(new, m, 0), module_moment(old, m, 0)))
        I.prove(label + ':module-centroid-y', Eq(module_moment(new, m, 1), module_moment(old, m, 1)))
    parents = []
    for c in new:
        j = parent_of(I, old, c)
        parents.append(j)
        I.prove(label + ':inside-a-parent', j >= 0 and geo.box_inside(c['box'], old[j]['box']))
        if j >= 0:
            I.prove(label + ':inherits-ratios', same_map(c['alloc'], old[j]['alloc']))
            I.prove(label + ':inherits-attrs', c['fixed'] == old[j]['fixed'])
    if via_api is not None:
        a0, a1 = via_api
        for m in MODS:
            if any(m in o['alloc'] for o in old):
                I.prove(label + ':api-area', Eq(a1.area(m), a0.area(m)))
                I.prove(label + ':api-center', And(Eq(a1.center(m).x * a0.area(m), a0.center(m).x * a0.area(m)),
                                                   Eq(a1.center(m).y * a0.area(m), a0.center(m).y * a0.area(m))))
    return parents


def halving_dims(w, h, levels):
    for _ in range(levels):
        taller = h > w
        w, h = Ite(taller, w, w / 2), Ite(taller, h / 2, h)
    return w, h


def should_split(cell, t):
    return And(len(cell['alloc']) > 0, *[r <= t for r in cell['alloc'].values()])


def apply_op(I, al, op, params):
    if op == 'refine':
        return al.refine(params['t'], params['levels'])
    if op == 'uniform':
        return al.uniform_refinement_depth()
    if op == 'griddify':
        return al.griddify()
    raise AssertionError(op)


def exact_refine(I, label, old, new, parents, t, levels):
    """C12: refine splits precisely the cells that should split, into 2^levels equal cells, halving the longer side first"""
    for i, o in enumerate(old):
        kids = [c for c, j in zip(new, parents) if j == i]
        ss = should_split(o, t)
        I.prove(label + ':split-iff-nonempty-and-all<=t', Iff(ss, len(kids) == 2 ** levels) if 2 ** levels != 1 else True)
        I.prove(label + ':kids-count', len(kids) in (1, 2 ** levels))
        if len(kids) == 1:
            k = kids[0]
            I.prove(label + ':unsplit-cell-untouched', And(*[Eq(a, b) for a, b in zip(k['box'], o['box'])], k['depth'] == o['depth'],
                                                           same_map(k['alloc'], o['alloc'])))
        else:
            w, h = halving_dims(o['w'], o['h'], levels)
            I.prove(label + ':kids-equal-size-longer-side-first', And(*[And(Eq(k['w'], w), Eq(k['h'], h)) for k in kids]))
            I.prove(label + ':kids-depth', all(k['depth'] == o['depth'] + levels for k in kids))


def grid_aligned(I, label, old, new, parents):
    """C12: after griddify no refinable cell is crossed by a boundary line of any cell (slivers w.r.t. the
    ancestor's other side excepted -- the loosest reading, so correct code is never flagged)"""
    xs = [o['box'][0] for o in old] + [o['box'][2] for o in old]
    ys = [o['box'][1] for o in old] + [o['box'][3] for o in old]
    q = Fraction(1, 100) if I.mode == 'symbolic' else 0.01
    # strictly more than the code's binary 0.01 so that the comparison is robust: use 0.0101
    q = Fraction(101, 10000) if I.mode == 'symbolic' else 0.0101
    for c, j in zip(new, parents):
        if c['fixed'] or j < 0:
            continue
        anc = old[j]
        b = c['box']
        I.prove(label + ':no-x-line-crosses', And(*[Not(And(X - b[0] > q * anc['h'], b[2] - X > q * anc['h'])) for X in xs]))
        I.prove(label + ':no-y-line-crosses', And(*[Not(And(Y - b[1] > q * anc['w'], b[3] - Y > q * anc['w'])) for Y in ys]))
