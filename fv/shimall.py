"""Install the in-memory shims on all FRAME library modules (frame.*)."""
from fv import symx


def install_frame():
    import frame.geometry.geometry as G
    import frame.utils.utils as U
    import frame.die.die as D
    import frame.die.yaml_parse_die as YD
    import frame.netlist.module as M
    import frame.netlist.netlist as N
    import frame.netlist.netlist_types as NT
    import frame.netlist.yaml_read_netlist as YR
    import frame.netlist.yaml_write_netlist as YW
    import frame.allocation.allocation as A
    for mod in (G, U, D, YD, M, N, NT, YR, YW, A):
        symx.install(mod)
    return dict(G=G, U=U, D=D, YD=YD, M=M, N=N, NT=NT, YR=YR, YW=YW, A=A)


def reset_epsilon(eps=1e-10, aeps=1e-5):
    from frame.geometry.geometry import Rectangle
    Rectangle._distance_epsilon = eps
    Rectangle._area_epsilon = aeps
