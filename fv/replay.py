"""Concrete replay: run a harness body on plain python numbers against the real, unshimmed code.
Invoked as `/venv/bin/python -m fv.replay` with a JSON payload on stdin (fresh interpreter)."""
import importlib
import json
import sys
import traceback


def main():
    d = json.loads(sys.stdin.read())
    from fv import symx
    mod = importlib.import_module('fv.props.' + d['pid'].lower())
    I = symx.ConcreteI(d['values'])
    out = dict(results={}, observed={}, vacuous=False, detail=None)
    try:
        if hasattr(mod, 'reset'):
            mod.reset()
        mod.body(I, d['case'])
    except symx.ReplayVacuous as e:
        out['vacuous'] = True
        out['detail'] = str(e)
    except Exception as e:
        out['error'] = f"{type(e).__name__}: {e}\n{traceback.format_exc()[-1200:]}"
    out['results'] = I.results
    try:
        out['observed'] = json.loads(json.dumps(I.observed, default=str))
    except Exception:
        out['observed'] = {}
    if out['detail'] is None:
        out['detail'] = getattr(I, 'detail', None)
    print(json.dumps(out, default=str))


if __name__ == '__main__':
    main()
