"""Regenerates MANIFEST.json from the table below (keeps it valid at all times)."""
import json
import os

ROOT = os.path.dirname(os.path.dirname(os.path.abspath(__file__)))

CHECKS = {
    'C18': dict(
        text="Bounded symbolic model checking of the real Rectangle methods: every feasible path of the real code on two "
             "rectangles with all coordinates symbolic reals is enumerated and each geometric obligation is discharged by z3 "
             "(unsat of PC and not-obligation) against an independent min/max specification; free-point tiling obligations for "
             "every split/cut/grid.",
        note="Exact-real arithmetic model (rounding outside); sizes bounded (2 rectangles, grids <= 3x3); z3 and CPython operator "
             "semantics trusted; witness replays compare symbolic outputs with concrete runs of the unshimmed code.",
        design="5/C18"),
    'C16': dict(
        text="Bounded symbolic model checking of the real Literal/Term/Expr/Ineq operator overloads: expression trees are built "
             "through the real API with every integer constant an unbounded z3 Int and the truth assignment two z3 Bools; on "
             "every feasible path z3 proves value(built)=value(direct), holds(Ineq) <=> direct comparison, and the normal form.",
        note="Tree shapes bounded (depth <= 2 quick, <= 3 thorough, two variables); python ints = mathematical integers; "
             "unsupported operand combinations that raise are counted as refused.",
        design="5/C16"),
    'C07': dict(
        text="The real pseudo-Boolean encoder is executed with unbounded symbolic integer coefficients/bounds (every literal "
             "structure enumerated); each path fixes a concrete CNF whose projection on the user variables is decided by z3 "
             "per assignment and then z3 proves, for all coefficient values on the path, projection <=> the inequality's integer "
             "meaning (so a silently dropped or mis-encoded constraint is a counterexample). At-most-one/clauses/implications: "
             "exact projection for every group size in the bound. solve/value/evalexpr: every model a correct SAT solver may return.",
        note="n<=3 (4 thorough) literal occurrences, coefficient-decomposition coefficients bounded to [-7,7]; PySAT replaced by "
             "a contract stub returning an arbitrary model; history bounded to 1-2 earlier encodings sharing the diagram store, with symbolic and with concrete coefficients (textual memo keys), every path of the history cases in a forked process.",
        design="5/C07"),
    'C06': dict(
        text="Bounded symbolic model checking of the real create_stog/find_location on lists of n rectangles in every order: one "
             "axis universal (reals with a separation margin), the other from an exhaustive family of band layouts; on every path z3 "
             "proves result <=> exists-trunk against an independent abutment predicate (positions, not values), trunk first, "
             "every branch labelled with a side it really abuts, no roles otherwise, and that the list is a permutation of unaltered objects.",
        note="n<=3 quick / n<=4 thorough; margin 1e-3 against tolerances 1e-10/1e-5 so sub-tolerance geometry is outside; "
             "one axis symbolic at a time (both orientations).",
        design="5/C06"),
    'C02': dict(
        text="Bounded symbolic model checking of the real Allocation constructor and refine / uniform_refinement_depth / griddify: "
             "cell coordinates on one axis are symbolic breakpoints, occupancy ratios and threshold symbolic reals; on every path "
             "z3 proves free-point tiling (no overlap, same region), per-module area and first-moment conservation (polynomial "
             "identities, also through the area()/center() API), ratio inheritance from the containing parent, that the call "
             "succeeds, and that fixed cells are not cut.",
        note="15 partition templates up to 4 cells, levels<=3, both orientations, compositions of two operations in the thorough tier; "
             "exact reals with margin 1e-3 against tolerance 1e-10; invalid pre-states rejected by the constructor are discarded.",
        design="5/C02"),
    'C12': dict(
        text="Same exploration as C02 with the decision obligations: must_be_refined(t) <=> refine(t) changes the allocation <=> "
             "some non-empty cell has all ratios <= t; refine splits exactly those cells into 2^levels equal cells (longer side "
             "halved first, depth raised), others untouched; uniform refinement ends at the former maximum depth with 2^(max-d) "
             "equal cells per cell; after griddify no boundary line of any cell crosses a refinable cell except slivers.",
        note="Bounds as C02. The number of rounds of the refine-while-needed loop is not bounded by this check (only progress per "
             "requested round and identity when not requested).",
        design="5/C12"),
    'C01': dict(
        text="Bounded symbolic model checking of the real Die constructor (parser, boundary gathering, cell matrix, greedy ground "
             "cover, final self-check) with the die extent and all region boundaries on one axis symbolic: on every path z3 proves "
             "that a valid description is accepted, every reported rectangle is inside the die, a free point is strictly inside at "
             "most one and (if in the die) in the closure of at least one, areas sum to the die, every input region is reported "
             "unchanged with its tag in its own list; invalid descriptions (sticking out, overlapping) are rejected on every path.",
        note="<=2 regions quick / 3 thorough from generated placements over symbolic breakpoints, plus concrete-geometry families (all 60 tag orders of 3 regions, "
             "region lists of every length 4..8, netlists made of terminals with the design's own tolerances); fixed regions come through the "
             "real Netlist loader; exact reals with margin 0.01; in addition a binary64 kernel (QF_BVFP, z3+cvc5) runs the real inside test of Die._check_rectangles on decimal coordinates n/10, n/100 (n < 2^8 quick, 2^10-2^11 thorough) and proves that a region mathematically inside or touching the border is never judged outside.",
        design="5/C01"),
    'C11': dict(
        text="Bounded symbolic model checking of the real split_rectangles / Die.split_refinable_regions / initial_grid with symbolic "
             "widths: count >= n, free-point tiling of the former refinable area, each piece inside its source with its tag, aspect "
             "ratio <= r for every piece (cross-multiplied), blockages untouched.",
        note="r from {1.42,1.5,1.9,2,3}, n<=4 (6 thorough), input ratios <= 8, one or two starting rectangles, die with one blockage.",
        design="5/C11"),
    'C08': dict(
        text="The CNF that the real rect.solve/enforce_bb build for a grid is captured from the SAT manager and its whole model set "
             "is decided by z3 with the cell variables of every box as symbolic Booleans: (exists aux. CNF) implies the independent "
             "specification of k-box single-trunk orthogons and the cost bound, and every orthogon meeting the bound extends to a "
             "model (quantified Boolean query); plus: the rectangles rect.solve returns are the boxes of an admitted shape and a "
             "shape is returned iff one meets the bound.",
        note="grids up to 2x3/3x2 with k<=2 (3x3, k<=3 thorough) on 5 coordinate families (origins 0/1.5/2, unit, 0.75, non-uniform "
             "steps), minimum-error mode, 3 cost bounds; PySAT assumed complete.",
        technique="SMT/QBF model-set equivalence (z3) between the CNF generated by the real code and an independent specification",
        design="5/C08"),
    'C09': dict(
        text="The real legaliser builds its constraint system for each netlist of the family (GEKKO objects only, no solve); every "
             "model variable is then assigned a symbolic real and the real Equation.is_equation_met of every equation (groups Area, "
             "Inter, Fix, Bounds, Shapes, Attach, Intra) is summarised into a z3 formula over the configuration. z3 proves: a "
             "configuration legal with margin satisfies every equation; a configuration violating one legality clause by a clear "
             "margin falsifies an equation of the responsible group; the netlist's own legal configuration satisfies all "
             "equations. Legality is an independent predicate (inside die, aspect ratio, area, attachment within extent, order, "
             "no inter-module overlap, congruence of hard modules, fixed in place).",
        note="11 concrete netlist structures x symbolic configurations; tolerance 1e-6 after the annealed slack reached 0; the "
             "smoothed no-overlap equation is handled by stated cuts on the real smax; netlist constants are concrete.",
        design="5/C09"),
    'C10': dict(
        text="The real glbfloor / optimize_allocation / extract_solution run with GEKKO replaced by a recording contract stub: every "
             "optimiser variable is a symbolic real within its bounds and, when solve() returns, holds an arbitrary point satisfying "
             "the posted linear equations - or the solver fails to converge (symbolic outcome): solve() then raises when debug>=1 and "
             "returns silently with arbitrary values when debug=0. Both the plain and the visualising mode are run. On every returning path z3 proves: returned cells inside the die and non-overlapping (free "
             "point), ratios in [0,1], no cell over 100%, centres in the die, fixed modules unchanged and sole full owners of their "
             "cells, movable hard modules translated (mirrored only if flippable) with unchanged shapes.",
        note="6 (9) concrete instances + 2 in visualising mode (solver-iteration budget 2 instead of 100), threshold/alpha symbolic; solver tolerance and the nonlinear equations are not modelled "
             "(weakening); outcomes on which glbfloor raises instead of returning are outside the property.",
        design="5/C10"),
    'C19': dict(
        text="For every producer in reach - Die.write_yaml, Allocation.write_yaml (before/after refine and griddify), every netgen "
             "topology at every size where it is defined (n<=6, grids <=3x3, h-tree <=2 levels), dump_yaml_namededges, "
             "rect_io.solution_to_netlist / get_netlist, the legaliser's get_netlist and Netlist.write_yaml - the real writer runs on a design with "
             "symbolic numbers, the real reader loads the result, and z3 proves field-by-field equality with what was written, "
             "that producing the document does not alter the source object and that producing it twice gives identical documents.",
        note="write_yaml is the identity on trees symbolically (real YAML text in every replay); string-built YAML is parsed by the "
             "real ruamel parser with placeholder numerals; the FloorSet converter's numeric content is numpy-only and not decided.",
        design="5/C19"),
    'C20': dict(
        text="One inductive history step from an arbitrary reachable pre-state: each probe (netlist load with verdict and orthogon "
             "roles, die load and decomposition, allocation load + griddify, pseudo-Boolean encoding, Strop construction, "
             "legaliser equations at a symbolic configuration, calls receiving mutable defaults) is executed on the same symbolic "
             "design after a symbolic history (class-wide Rectangle tolerances left by a design of scale within a factor 1000, "
             "earlier encodings in the diagram store, an earlier legaliser model, earlier default-argument calls) and from the "
             "import-time state (replays compute the reference in a really fresh interpreter; state probes run every path in a forked process); z3 proves the observables equal. Margin mode: any difference is a violation. Band mode (no "
             "separation margin): the tolerance-caused difference is the recorded known finding, and the companion obligation "
             "'same result when the tolerances are forced equal' must still be proved. The structure of a legaliser model built "
             "after a history is compared with the structure computed in a really fresh interpreter.",
        note="history length one (inductive step), probes at the quick bounds of their own properties; state changed other than "
             "through FRAME's API is outside.",
        design="5/C20"),
    'C03': dict(
        text="Bounded symbolic model checking of the real create_initial_allocation (Die, Netlist, create_squares, fixed-rectangle "
             "detection, overlap ratios, Allocation constructor) with module rectangle positions/widths symbolic: z3 proves for every "
             "refinable cell and module ratio*cell-area = sum of overlaps against an independent min/max formula, listing iff "
             "overlap>0 (or always with include-zero), full ownership of fixed cells by their module and absence elsewhere, and "
             "allocated area = shape area on refinable cells. A second family allocates, moves the modules in place by a symbolic "
             "displacement (centre update / recenter_rectangles, as the placement tools do) and allocates again: the same obligations "
             "must hold for the moved design. A binary64 kernel (QF_FP, z3 + cvc5) runs the real Rectangle.area_overlap / area on "
             "FloatingPoint terms and proves overlap <= area of either operand, hence an occupancy ratio <= 1.",
        note="concrete 12x4 dies with <=1 region (also refined), one symbolic module at a time, plus symbolic-die cases with a "
             "concrete module; one axis symbolic; terminals and self-overlapping modules outside.",
        design="5/C03"),
    'C04': dict(
        text="Bounded symbolic model checking of the real netlist reader and writer: documents of every module kind with all numbers "
             "symbolic are loaded by the real Netlist, dumped by the real dump_yaml_* functions, reloaded, and z3 proves on every path "
             "that the reloaded design equals the first one field by field (kinds, flip, per-region areas, centres, aspect-ratio "
             "bounds, rectangles with regions and roles, nets with members and weights), that a second dump is identical, and that "
             "dumping does not alter the design.",
        note="6 (10) document structures up to 3 modules / 2 nets; the ruamel text layer is bypassed symbolically (tree level) and "
             "exercised concretely by every witness and counterexample replay.",
        design="5/C04"),
    'C05': dict(
        text="Same documents as C04: z3 proves every derived quantity equals its definition on the source document (areas, "
             "per-region areas, area-weighted centroids cross-multiplied, rectangle lists, fixed rectangles, wire length with "
             "sqrt side conditions), and for 20 defect classes injected at every applicable position that every path of the loader "
             "raises (an accepting path is a counterexample, replayed through the YAML text); the overlap defect is also run at scales "
             "1 .. 1e-6 with the design's own tolerances (accepting paths below the library's area tolerance at scales <= 1e-4 are the "
             "recorded known finding, above it a violation).",
        note="bounds as C04; overlapping hard rectangles overlap by a clear margin; sub-tolerance overlaps outside.",
        design="5/C05"),
    'C13': dict(
        text="The real fruchterman_reingold_layout is executed symbolically for max_iter 0 and 1 from an arbitrary start (inside or "
             "outside the die) with every nonlinear operation an uninterpreted function carrying sign axioms: on every path z3 proves "
             "fixed modules unmoved, every movable centre inside the die after an iteration (the inductive step for any iteration "
             "count), nothing but centres changed, and equal results for two runs on equal designs. force_algorithm is executed with "
             "arbitrary cost values for the 12 spring constants (2048 paths): the final layout uses the first spring constant "
             "attaining the smallest cost, on the original die; a second family moves the candidates' centres to symbolic positions and "
             "reads the REAL Netlist.wire_length (with and without a read of the input's wire length before the relocation): the "
             "chosen layout must minimise overlap + half the wire length as defined; a third runs the REAL total_intersection_area on "
             "concentric discs with symbolic areas, alone and after a history on a design with the same module names. A binary64 kernel (QF_FP) proves the centre of a fixed module is "
             "bit-for-bit unchanged.",
        note="2 modules (3 in the thorough tier), one axis of the die symbolic; uninterpreted mul/div/sqrt over-approximate the "
             "path set; finiteness of the centres and more than one unrolled iteration are not decided.",
        technique="symbolic execution of the real Python code with uninterpreted nonlinear arithmetic + z3; QF_FP kernel (z3/cvc5)",
        design="5/C13"),
    'C14': dict(
        text="Three layered solver checks on the real spectral code: (N) the real normalize on an arbitrary vector: every eligible "
             "movable entry ends within its span, fixed entries unchanged, ValueError only when nothing is eligible; (loop) the real "
             "spectral_layout_die with the numeric kernels replaced by arbitrary-valued stubs and normalize by contract N: final "
             "coordinates of movable nodes are within size/2 - radius and fixed nodes keep their coordinate, for one more iteration "
             "from any state; (wrap-up) the real Spectral.spectral_layout for 0..3 trials: disc of every movable module inside the "
             "die, fixed modules untouched, hard modules translated rigidly, areas unchanged and nets equal to the input document "
             "(2-, 3- and 4-pin nets, symbolic weight); one wrap-up case adds movable terminals (a bare point and a pad with a footprint, "
             "whose centre must stay on its footprint).",
        note="n<=3 (4) entries, 3 nodes, 5 modules; convergence, the iteration cap, entries below 1e-9 before scaling and RNG "
             "internals are outside.",
        design="5/C14"),
    'C15': dict(
        text="Every 0/1 grid inside the bound is run through the real Strop constructor with symbolic cells (one path per grid); z3 "
             "decides the existential specification 'some rectangle is a valid trunk' against the code's answer and the validity of "
             "every offered decomposition (partition, abutment within extent). Vertex polygons with symbolic ordered coordinates: "
             "area preserved (shoelace), pieces disjoint, result recognised by the real create_stog with the trunk first; "
             "non-orthogons rejected.",
        note="grids up to 3x3 and 2x4 (4x4, 3x5 thorough): inside the bound this coincides with exhaustive enumeration, the solver "
             "being the oracle; 11 polygon shapes x orientation x axis.",
        design="5/C15"),
    'C17': dict(
        text="Totality in binary64: the real circle_circle_intersection_area is executed on z3 FloatingPoint proxies (QF_FP, z3 + "
             "cvc5 portfolio): every exception site (arccosine domain, zero divisor, overflow of **) is proved unreachable and the "
             "result finite, for all radii in [1e-6,1e6] and every centre distance satisfying the contract of Point.norm, which is "
             "proved on the real Point.__sub__/norm for coordinates in [-1e6,1e6]. Symmetry and the case structure (0 iff far "
             "apart, disc area iff nested) are proved over the reals with Ackermannised uninterpreted acos/asin (range, monotonicity, "
             "principal-value identities; sin(acos t)=sqrt(1-t^2)); an obligation answered `unknown` is followed by a pinned "
             "counterexample search and otherwise makes the check exit 2.",
        note="Bounded/accurate clauses are NOT decided (transcendental reasoning). x**2 modelled as fl(x*x), **0.5 as correctly "
             "rounded sqrt; acos/sin results arbitrary in their ranges; assume-guarantee cut at Point.norm.",
        technique="symbolic execution of the real Python code on binary64 proxies + QF_FP solving (z3, cvc5), and on real proxies + z3 NRA",
        design="5/C17"),
}

PENDING_REASON = "check not built yet in this round (planned in DESIGN.md section 5); nothing is claimed"


def main():
    props = [json.loads(l) for l in open(os.path.join(ROOT, 'properties.jsonl'))]
    checks = []
    na = []
    for p in props:
        pid = p['id']
        if pid in CHECKS:
            c = CHECKS[pid]
            checks.append(dict(
                property_id=pid,
                quick_cmd=f"./check {pid} --tier quick",
                thorough_cmd=f"./check {pid} --tier thorough",
                evidence_file=f"/verif/evidence/{pid}.json",
                replay_cmd_template=f"./check {pid} --replay {{path}}",
                engine="symx",
                level_claimed=dict(category='model_checking', text=c['text'], design_ref=c['design']),
                level_note=c['note'],
                technique=c.get('technique', "symbolic execution of the real Python code (symx proxies) + z3 SMT, bounded"),
            ))
        else:
            na.append(dict(property_id=pid, reason=NA.get(pid, PENDING_REASON)))
    m = dict(
        version=1,
        setup_cmd="./setup.sh",
        hooks=dict(guard="FRAME_VERIF", enable="no source hooks: shims are applied in memory to modules imported from /repo's working tree",
                   baseline_off_cmd="cd /repo && /venv/bin/python -m pytest -ra -q -p no:cacheprovider --timeout=900 --continue-on-collection-errors",
                   source_commits=[], add_only=True),
        engines=[dict(name="symx", path="/verif/fv/symx.py", serves_properties=sorted(CHECKS),
                      kind_free_text="re-executing symbolic executor for the real Python code (z3 Real/Int/Bool proxies), "
                                     "obligations discharged by z3 / cvc5; counterexamples replayed on the unshimmed code")],
        checks=checks,
        not_applicable=na,
        notes="All results are bounded; see DESIGN.md. Exit codes: 0 pass, 1 VIOLATION (replayed on real code), 2 harness error/inconclusive. Recorded findings: known_findings.json (open: C20-tolerance-history, C17-overflow-huge-radii, C05-area-tolerance-small-scale - each prints a KNOWN-FINDING line and is classified narrowly; 'fixed' lists the repaired defects with their /repo commits). Seeded changes used to test the checks: seeded/ (9 rounds, 97 changes; DESIGN.md 9.5).",
    )
    json.dump(m, open(os.path.join(ROOT, 'MANIFEST.json'), 'w'), indent=1)


NA = {}

if __name__ == '__main__':
    main()
