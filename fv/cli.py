import argparse
import os
import sys


def main():
    ap = argparse.ArgumentParser()
    ap.add_argument('pid')
    ap.add_argument('--tier', default=os.environ.get('VERIF_TIER', 'quick'), choices=['quick', 'thorough'])
    ap.add_argument('--replay', default=None)
    a = ap.parse_args()
    pid = a.pid.upper()
    from fv import run
    sys.exit(run.main(pid, 'fv.props.' + pid.lower(), a.tier, a.replay))


if __name__ == '__main__':
    main()
