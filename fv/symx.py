"""symx -- re-executing path explorer: runs the *real* FRAME functions on symbolic operands.

Proxies (SymReal / SymInt / SymBool) build z3 terms; only ``SymBool.__bool__`` (the real
code's own ``if`` / ``assert`` / ``min`` / ``sort`` ...) asks the explorer for a decision.
Exploration is DFS by re-execution with a recorded decision prefix.  See DESIGN.md section 2.

This module must stay importable without z3 when only the concrete mode (``ConcreteI``)
is used (replays run under /venv/bin/python, which has no z3).
"""
import builtins
import math as _math
import numbers
import time
from fractions import Fraction

try:  # z3 is only needed in symbolic mode
    import z3
except Exception:  # pragma: no cover - concrete replays
    z3 = None


UF_NONLINEAR = False  # harness option: products/quotients of two symbolic terms become uninterpreted functions
PLACEHOLDERS = None  # dict while a string-built document is being produced: numerals become tokens __S<n>__


def _placeholder(x):
    k = len(PLACEHOLDERS)
    PLACEHOLDERS[f"__S{k}__"] = SymReal(x.e)
    return f"__S{k}__"


def substitute_placeholders(tree, table):
    if isinstance(tree, dict):
        return {k: substitute_placeholders(v, table) for k, v in tree.items()}
    if isinstance(tree, list):
        return [substitute_placeholders(v, table) for v in tree]
    if isinstance(tree, str) and tree in table:
        return table[tree]
    return tree


ALLOW_STR = False  # harnesses whose code under test only formats numbers in messages may set this


class Abort(BaseException):
    """Path steering (infeasible path / discarded pre-state). BaseException on purpose."""


class Inconclusive(BaseException):
    """Something the engine cannot model was hit (reported as harness error, exit 2)."""


# --------------------------------------------------------------------------------------
# context
# --------------------------------------------------------------------------------------
class Ctx:
    cur = None

    def __init__(self, prefix, timeout_ms):
        self.solver = z3.Solver()
        self.solver.set("timeout", timeout_ms)
        self.prefix = prefix
        self.trace = []
        self.work = []
        self.queries = 0
        self.qtime = 0.0
        self.unknown = 0
        self.model = None  # a model of the current PC (completed with defaults)
        self.side = []  # nonlinear side conditions (sqrt), kept out of branch queries
        self.sqrt_cache = {}
        self.sqrt_args = {}
        self.aux = {}
        self.facts = []  # facts about hash-consed symbols (shared with nested summaries)
        self.uf_cache = {}
        self.inputs = {}  # name -> z3 const
        self.fresh = 0
        self.nbranch = 0

    # -- solver plumbing
    def check(self, *extra):
        t = time.time()
        r = self.solver.check(*extra)
        self.qtime += time.time() - t
        self.queries += 1
        return str(r)

    def get_model(self):
        return self.solver.model()

    def _refresh_model(self):
        r = self.check()
        if r == 'sat':
            self.model = self.get_model()
        elif r == 'unsat':
            raise Abort("infeasible")
        else:
            self.unknown += 1
            self.model = None

    def _eval(self, cond):
        if self.model is None:
            return None
        try:
            v = self.model.eval(cond, model_completion=True)
        except z3.Z3Exception:
            return None
        if z3.is_true(v):
            return True
        if z3.is_false(v):
            return False
        return None

    def add(self, lit):
        self.solver.add(lit)

    def branch(self, cond):
        """cond: z3 BoolRef -> python bool; records the decision."""
        if z3.is_true(cond):
            return True
        if z3.is_false(cond):
            return False
        cond = z3.simplify(cond)
        if z3.is_true(cond):
            return True
        if z3.is_false(cond):
            return False
        self.nbranch += 1
        i = len(self.trace)
        if i < len(self.prefix):
            d = self.prefix[i]
            self.trace.append(d)
            self.solver.add(cond if d else z3.Not(cond))
            if i == len(self.prefix) - 1:
                # the flipped decision: its feasibility was established when it was queued
                self._refresh_model()
            return d
        if self.model is None and i == 0:
            self._refresh_model()
        known = self._eval(cond)
        if known is None:
            rt = self.check(cond)
            rf = self.check(z3.Not(cond))
            if rt == 'unknown' or rf == 'unknown':
                self.unknown += 1
            can_t, can_f = rt != 'unsat', rf != 'unsat'
            if can_t and can_f:
                self.work.append(self.trace + [False])
                d = True
            elif can_t:
                d = True
            elif can_f:
                d = False
            else:
                raise Abort("infeasible path")
            self.trace.append(d)
            self.solver.add(cond if d else z3.Not(cond))
            self.model = None
            try:
                self._refresh_model()
            except Abort:
                raise
            return d
        d = known
        other = z3.Not(cond) if d else cond
        r = self.check(other)
        if r == 'unknown':
            self.unknown += 1
        if r != 'unsat':
            self.work.append(self.trace + [not d])
        self.trace.append(d)
        self.solver.add(cond if d else z3.Not(cond))
        return d

    def assume(self, cond):
        cond = _b(cond)
        if isinstance(cond, bool):
            if not cond:
                raise Abort("assume false")
            return
        self.solver.add(cond)
        if self._eval(cond) is not True:
            self._refresh_model()

    def fresh_name(self, base):
        self.fresh += 1
        return f"{base}!{self.fresh}"


def _ctx():
    c = Ctx.cur
    if c is None:
        raise RuntimeError("symbolic value used outside an exploration")
    return c


# --------------------------------------------------------------------------------------
# proxies
# --------------------------------------------------------------------------------------
def _frac_val(f):
    f = Fraction(f)
    if f.denominator == 1:
        return z3.RealVal(str(f.numerator))
    return z3.RealVal(f"{f.numerator}/{f.denominator}")


def lift(x):
    """python number / proxy -> z3 arithmetic term (exact binary value for floats)."""
    if isinstance(x, SymReal):
        return x.e
    if isinstance(x, SymBool):
        return z3.If(x.e, z3.IntVal(1), z3.IntVal(0))
    if isinstance(x, bool):
        return z3.IntVal(int(x))
    if isinstance(x, int):
        return z3.IntVal(x)
    if isinstance(x, float):
        if x != x or x in (float('inf'), float('-inf')):
            raise Inconclusive("non-finite float mixed with a symbolic value")
        return _frac_val(x)
    if isinstance(x, Fraction):
        return _frac_val(x)
    return None


def _b(x):
    if isinstance(x, SymBool):
        return x.e
    if isinstance(x, (bool, int)):
        return bool(x)
    if z3 is not None and isinstance(x, z3.BoolRef):
        return x
    raise TypeError(f"not a boolean: {x!r}")


def _bz(x):
    x = _b(x)
    return z3.BoolVal(x) if isinstance(x, bool) else x


class SymBool:
    __slots__ = ('e',)

    def __init__(self, e):
        self.e = e

    def __bool__(self):
        return _ctx().branch(self.e)

    def __and__(self, o):
        return SymBool(z3.And(self.e, _bz(o)))

    __rand__ = __and__

    def __or__(self, o):
        return SymBool(z3.Or(self.e, _bz(o)))

    __ror__ = __or__

    def __invert__(self):
        return SymBool(z3.Not(self.e))

    def __eq__(self, o):
        if isinstance(o, SymBool):
            return SymBool(self.e == o.e)
        if isinstance(o, bool) or (isinstance(o, int) and o in (0, 1)):
            return SymBool(self.e if o else z3.Not(self.e))
        return False

    def __ne__(self, o):
        r = self.__eq__(o)
        return SymBool(z3.Not(r.e)) if isinstance(r, SymBool) else True

    def __hash__(self):
        return 1 if _ctx().branch(self.e) else 0

    def __int__(self):
        return 1 if _ctx().branch(self.e) else 0

    def __index__(self):
        return self.__int__()

    # arithmetic on booleans (True + True ...)
    def __add__(self, o):
        return SymInt(lift(self)) + o

    __radd__ = __add__

    def __repr__(self):
        return f"SymBool({self.e})"


def _wrap(e):
    return SymInt(e) if z3.is_int(e) else SymReal(e)


def _is_num(e):
    e = z3.simplify(e)
    return z3.is_rational_value(e) or z3.is_int_value(e)


def _uf2(name, a, b):
    a = z3.ToReal(a) if z3.is_int(a) else a
    b = z3.ToReal(b) if z3.is_int(b) else b
    f = z3.Function(name, z3.RealSort(), z3.RealSort(), z3.RealSort())
    a, b = z3.simplify(a), z3.simplify(b)
    t = f(a, b)
    c = Ctx.cur
    key = t.sexpr()
    if c is not None and key not in c.uf_cache:
        c.uf_cache[key] = True
        # sign axioms of real multiplication / division (sound facts about the abstracted operation)
        if name == 'mul':
            c.add(z3.Implies(z3.Or(a == 0, b == 0), t == 0))
            c.add(z3.Implies(z3.Or(z3.And(a > 0, b > 0), z3.And(a < 0, b < 0)), t > 0))
            c.add(z3.Implies(z3.Or(z3.And(a > 0, b < 0), z3.And(a < 0, b > 0)), t < 0))
            c.add(t == f(b, a)) if a.sexpr() != b.sexpr() else None
        elif name == 'div':
            c.add(z3.Implies(a == 0, t == 0))
            c.add(z3.Implies(z3.Or(z3.And(a > 0, b > 0), z3.And(a < 0, b < 0)), t > 0))
            c.add(z3.Implies(z3.Or(z3.And(a > 0, b < 0), z3.And(a < 0, b > 0)), t < 0))
    return t


def _mul(a, b):
    if UF_NONLINEAR and not _is_num(a) and not _is_num(b):
        return _uf2('mul', a, b)
    return a * b


class SymReal:
    __slots__ = ('e',)

    def __init__(self, e):
        self.e = e

    # arithmetic ----------------------------------------------------------------------
    def _bin(self, o, f):
        oe = lift(o)
        if oe is None:
            return NotImplemented
        return _wrap(z3.simplify(f(self.e, oe)))

    def _rbin(self, o, f):
        oe = lift(o)
        if oe is None:
            return NotImplemented
        return _wrap(z3.simplify(f(oe, self.e)))

    def __add__(self, o):
        return self._bin(o, lambda a, b: a + b)

    def __radd__(self, o):
        return self._rbin(o, lambda a, b: a + b)

    def __sub__(self, o):
        return self._bin(o, lambda a, b: a - b)

    def __rsub__(self, o):
        return self._rbin(o, lambda a, b: a - b)

    def __mul__(self, o):
        return self._bin(o, _mul)

    def __rmul__(self, o):
        return self._rbin(o, _mul)

    def __truediv__(self, o):
        oe = lift(o)
        if oe is None:
            return NotImplemented
        if _ctx().branch(oe == 0):
            raise ZeroDivisionError("division by zero")
        if UF_NONLINEAR and not _is_num(oe):
            return SymReal(_uf2('div', self.e, oe))
        return SymReal(z3.simplify(z3.ToReal(self.e) / oe if z3.is_int(self.e) else self.e / oe))

    def __rtruediv__(self, o):
        oe = lift(o)
        if oe is None:
            return NotImplemented
        if _ctx().branch(self.e == 0):
            raise ZeroDivisionError("division by zero")
        num = z3.ToReal(oe) if z3.is_int(oe) else oe
        if UF_NONLINEAR and not _is_num(self.e):
            return SymReal(_uf2('div', num, self.e))
        return SymReal(z3.simplify(num / self.e))

    def __neg__(self):
        return _wrap(z3.simplify(-self.e))

    def __pos__(self):
        return self

    def __abs__(self):
        return _wrap(z3.If(self.e >= 0, self.e, -self.e))

    def __pow__(self, k):
        if isinstance(k, SymReal):
            raise Inconclusive("symbolic exponent")
        if isinstance(k, int) and not isinstance(k, bool) and 0 <= k <= 8:
            r = None
            for _ in range(k):
                r = self.e if r is None else _mul(r, self.e)
            return _wrap(r if r is not None else z3.IntVal(1))
        if isinstance(k, float) and k == 0.5:
            return sym_sqrt(self)
        if isinstance(k, float) and k == int(k) and 0 <= k <= 8:
            r = self ** int(k)
            return SymReal(z3.ToReal(r.e)) if z3.is_int(r.e) else r
        raise Inconclusive(f"pow with exponent {k!r}")

    def __rpow__(self, b):
        raise Inconclusive("symbolic exponent")

    # comparisons ---------------------------------------------------------------------
    def _cmp(self, o, f, inf_hi, inf_lo):
        if isinstance(o, float):
            if o == float('inf'):
                return inf_hi
            if o == float('-inf'):
                return inf_lo
            if o != o:
                return False
        oe = lift(o)
        if oe is None:
            return NotImplemented
        return SymBool(f(self.e, oe))

    def __lt__(self, o):
        return self._cmp(o, lambda a, b: a < b, True, False)

    def __le__(self, o):
        return self._cmp(o, lambda a, b: a <= b, True, False)

    def __gt__(self, o):
        return self._cmp(o, lambda a, b: a > b, False, True)

    def __ge__(self, o):
        return self._cmp(o, lambda a, b: a >= b, False, True)

    def __eq__(self, o):
        if isinstance(o, float) and (o != o or o in (float('inf'), float('-inf'))):
            return False
        oe = lift(o) if not isinstance(o, (str, bytes, type(None), tuple, list, dict)) else None
        if oe is None:
            return False
        return SymBool(self.e == oe)

    def __ne__(self, o):
        r = self.__eq__(o)
        return SymBool(z3.Not(r.e)) if isinstance(r, SymBool) else True

    def __hash__(self):
        return 7

    def __bool__(self):
        return _ctx().branch(self.e != 0)

    def __float__(self):
        raise Inconclusive("float() of a symbolic value at a C boundary")

    def __round__(self, n=None):
        raise Inconclusive("round() of a symbolic value")

    def __repr__(self):
        if PLACEHOLDERS is not None:
            return _placeholder(self)
        return f"Sym({self.e})"

    def __str__(self):
        if PLACEHOLDERS is not None:
            return _placeholder(self)
        if ALLOW_STR:
            return "<sym>"
        raise Inconclusive("str() of a symbolic real")

    def __format__(self, spec):
        if PLACEHOLDERS is not None:
            return _placeholder(self)
        if ALLOW_STR:
            return "<sym>"
        raise Inconclusive("format() of a symbolic real")


class SymInt(SymReal):
    __slots__ = ()

    def __floordiv__(self, o):
        if isinstance(o, int) and not isinstance(o, bool) and o > 0:
            return SymInt(z3.simplify(self.e / z3.IntVal(o)))
        raise Inconclusive("floordiv by non-positive or symbolic divisor")

    def __mod__(self, o):
        if isinstance(o, int) and not isinstance(o, bool) and o > 0:
            return SymInt(z3.simplify(self.e % z3.IntVal(o)))
        raise Inconclusive("mod by non-positive or symbolic divisor")

    def __index__(self):
        return concretize(self)

    def __int__(self):
        return concretize(self)

    def __hash__(self):
        return 11

    def __repr__(self):
        return f"SymI({self.e})"

    def __str__(self):
        # a token that is a function of the simplified AST (equal ASTs <=> equal strings)
        return "<" + z3.simplify(self.e).sexpr().replace(" ", "_") + ">"

    def __format__(self, spec):
        return str(self)


numbers.Real.register(SymReal)
numbers.Integral.register(SymInt)


def concretize(x, lo=None, hi=None, limit=64):
    """Enumerate the feasible values of an integer term (forks).  Candidates are tried in a fixed
    order so that re-executions take identical decisions."""
    if not isinstance(x, SymReal):
        return x
    c = _ctx()
    v = z3.simplify(x.e)
    if z3.is_int_value(v):
        return v.as_long()
    if lo is not None and hi is not None:
        cands = range(lo, hi + 1)
    else:
        cands = [0] + [s * k for k in range(1, limit + 1) for s in (1, -1)]
    for val in cands:
        if c.branch(x.e == val):
            return val
    raise Inconclusive("concretize: value outside the enumerated range")


def sym_sqrt(x):
    if not isinstance(x, SymReal):
        return _math.sqrt(x)
    c = _ctx()
    e = z3.simplify(z3.ToReal(x.e) if z3.is_int(x.e) else x.e)
    if z3.is_rational_value(e):
        f = Fraction(e.numerator_as_long(), e.denominator_as_long())
        if f < 0:
            raise ValueError("math domain error")
        import math
        n, d = math.isqrt(f.numerator), math.isqrt(f.denominator)
        if n * n == f.numerator and d * d == f.denominator:
            return SymReal(_frac_val(Fraction(n, d)))
    if c.branch(e < 0):
        raise ValueError("math domain error")
    try:
        e = z3.simplify(e, som=True)  # canonical polynomial form: equal polynomials share one sqrt symbol
    except z3.Z3Exception:
        pass
    key = e.sexpr()
    if key not in c.sqrt_cache:
        for k2, (e2, s2) in c.sqrt_args.items():  # same polynomial written differently?
            try:
                dz = z3.simplify(e - e2, som=True)
            except z3.Z3Exception:
                continue
            if z3.is_rational_value(dz) and dz.numerator_as_long() == 0:
                c.sqrt_cache[key] = s2
                break
    if key not in c.sqrt_cache:
        s = z3.Real(c.fresh_name("sqrt"))
        c.sqrt_cache[key] = s
        c.sqrt_args[key] = (e, s)
        c.facts.append(s >= 0)
        c.add(s >= 0)
        if not UF_NONLINEAR:
            c.side.append(s * s == e)
        else:
            c.add(z3.Implies(e > 0, s > 0))
            c.add(z3.Implies(e == 0, s == 0))
    return SymReal(c.sqrt_cache[key])


def uninterpreted(name, *args):
    """Deterministic uninterpreted real function of its (symbolic) arguments."""
    c = _ctx()
    zs = []
    for a in args:
        e = lift(a)
        zs.append(z3.ToReal(e) if z3.is_int(e) else e)
    f = z3.Function(name, *([z3.RealSort()] * (len(zs) + 1)))
    return SymReal(f(*zs))


# --------------------------------------------------------------------------------------
# module shims
# --------------------------------------------------------------------------------------
_isinstance = builtins.isinstance


def sym_isinstance(obj, cls):
    if getattr(type(obj), '_fv_float', False):
        classes = cls if _isinstance(cls, tuple) else (cls,)
        return any(k is float or k is SymFloatType or k is numbers.Real or k is numbers.Number or
                   (_isinstance(k, type) and _isinstance(obj, k)) for k in classes)
    if _isinstance(obj, SymReal):
        classes = cls if _isinstance(cls, tuple) else (cls,)
        is_int = _isinstance(obj, SymInt)
        for k in classes:
            if k is float and not is_int:
                return True
            if k is int and is_int:
                return True
            if k in (SymFloatType,) and not is_int:
                return True
            if k in (SymIntType,) and is_int:
                return True
            if k is numbers.Real or k is numbers.Number:
                return True
            if _isinstance(k, type) and k not in (float, int) and _isinstance(obj, k):
                return True
        return False
    if _isinstance(obj, SymBool):
        classes = cls if _isinstance(cls, tuple) else (cls,)
        return any(k is bool or k is SymBool for k in classes)
    if _isinstance(cls, tuple):
        cls = tuple(float if k is SymFloatType else int if k is SymIntType else k for k in cls)
    elif cls is SymFloatType:
        cls = float
    elif cls is SymIntType:
        cls = int
    return _isinstance(obj, cls)


class _FloatShim(type):
    def __instancecheck__(cls, o):
        return _isinstance(o, float) or (_isinstance(o, SymReal) and not _isinstance(o, SymInt))

    def __call__(cls, v=0.0):
        if getattr(type(v), '_fv_float', False):
            return v
        if _isinstance(v, SymInt):
            return SymReal(z3.ToReal(v.e))
        if _isinstance(v, SymReal):
            return v
        return float(v)


class SymFloatType(metaclass=_FloatShim):
    pass


class _IntShim(type):
    def __instancecheck__(cls, o):
        return _isinstance(o, (int, SymInt))

    def __call__(cls, v=0, *a):
        if _isinstance(v, SymInt):
            return v
        if _isinstance(v, SymReal):
            # truncation toward zero
            fl = z3.ToInt(v.e)
            return SymInt(z3.If(v.e >= 0, fl, z3.If(z3.ToReal(fl) == v.e, fl, fl + 1)))
        return int(v, *a)


class SymIntType(metaclass=_IntShim):
    pass


class MathFacade:
    """Drop-in for the ``math`` module inside FRAME modules under analysis."""
    pi = _math.pi
    inf = _math.inf
    e = _math.e
    nan = _math.nan

    def __getattr__(self, name):
        return getattr(_math, name)

    @staticmethod
    def sqrt(x):
        return sym_sqrt(x) if _isinstance(x, SymReal) else _math.sqrt(x)

    @staticmethod
    def isfinite(x):
        return True if _isinstance(x, SymReal) else _math.isfinite(x)

    @staticmethod
    def isnan(x):
        return False if _isinstance(x, SymReal) else _math.isnan(x)

    @staticmethod
    def isinf(x):
        return False if _isinstance(x, SymReal) else _math.isinf(x)

    @staticmethod
    def fabs(x):
        return abs(x) if _isinstance(x, SymReal) else _math.fabs(x)

    @staticmethod
    def floor(x):
        if _isinstance(x, SymInt):
            return x
        if _isinstance(x, SymReal):
            return SymInt(z3.ToInt(x.e))
        return _math.floor(x)

    @staticmethod
    def ceil(x):
        if _isinstance(x, SymInt):
            return x
        if _isinstance(x, SymReal):
            return SymInt(-z3.ToInt(-x.e))
        return _math.ceil(x)

    @staticmethod
    def acos(x):
        if not _isinstance(x, SymReal):
            return _math.acos(x)
        c = _ctx()
        if c.branch(z3.Or(x.e < -1, x.e > 1)):
            raise ValueError("math domain error")
        r = _ack("acos", x)
        c.uf_cache[r.e.sexpr()] = x
        # range of the principal value: [0, pi] (pi as the exact value of the binary64 constant is irrelevant here)
        c.add(r.e >= 0)
        if getattr(c, 'asin_used', False):
            _link_acos_asin(c, r, x)
        return r

    @staticmethod
    def asin(x):
        """uninterpreted on [-1, 1] with range, sign and end-point facts, and tied to every acos term of the path by
        acos t = asin(sqrt(1-t^2)) for t >= 0, = pi - asin(sqrt(1-t^2)) for t < 0 (exact identities of the principal values)"""
        if not _isinstance(x, SymReal):
            return _math.asin(x)
        c = _ctx()
        if c.branch(z3.Or(x.e < -1, x.e > 1)):
            raise ValueError("math domain error")
        r = _ack("asin", x)
        if not hasattr(c, 'asin_cache'):
            c.asin_cache = {}
        c.asin_cache[r.e.sexpr()] = x
        half_pi = z3.RealVal(str(Fraction(_math.pi) / 2))
        c.add(z3.And(r.e >= -half_pi, r.e <= half_pi, (r.e >= 0) == (x.e >= 0), (r.e == 0) == (x.e == 0),
                     (r.e == half_pi) == (x.e == 1), (r.e == -half_pi) == (x.e == -1)))
        if not getattr(c, 'asin_used', False):
            c.asin_used = True
            for key, t in list(c.uf_cache.items()):
                if key.startswith('acos!'):
                    _link_acos_asin(c, _ack("acos", t), t)
        return r

    @staticmethod
    def sin(x):
        if not _isinstance(x, SymReal):
            return _math.sin(x)
        c = _ctx()
        t = c.uf_cache.get(x.e.sexpr())
        if t is not None:  # sin(acos t) = sqrt(1 - t^2)
            return sym_sqrt(1 - t * t)
        t = getattr(c, 'asin_cache', {}).get(x.e.sexpr())
        if t is not None:  # sin(asin t) = t
            return t
        return uninterpreted("sin", x)

    @staticmethod
    def cos(x):
        if not _isinstance(x, SymReal):
            return _math.cos(x)
        c = _ctx()
        t = c.uf_cache.get(x.e.sexpr())
        if t is not None:  # cos(acos t) = t
            return t
        t = getattr(c, 'asin_cache', {}).get(x.e.sexpr())
        if t is not None:  # cos(asin t) = sqrt(1 - t^2)
            return sym_sqrt(1 - t * t)
        return uninterpreted("cos", x)


def _ack(name, x):
    """acos / asin as Ackermannised uninterpreted functions: one fresh real per distinct argument term, tied to the other
    applications on the path by congruence and strict monotonicity (acos decreasing, asin increasing).  Keeps the queries in
    pure nonlinear real arithmetic, which z3 decides far more reliably than the combination with uninterpreted functions."""
    c = _ctx()
    tbl = c.__dict__.setdefault('ack', {})
    xe = z3.simplify(lift(x))
    xe = z3.ToReal(xe) if z3.is_int(xe) else xe
    key = (name, xe.sexpr())
    if key in tbl:
        return SymReal(tbl[key][1])
    v = z3.Real(f'{name}!{len(tbl)}')
    for (n2, _k), (x2, v2) in tbl.items():
        if n2 == name:
            c.add(z3.And(z3.Implies(xe == x2, v == v2),
                         z3.Implies(xe < x2, v > v2 if name == 'acos' else v < v2),
                         z3.Implies(xe > x2, v < v2 if name == 'acos' else v > v2)))
    tbl[key] = (xe, v)
    return SymReal(v)


def _link_acos_asin(c, r, t):
    s = sym_sqrt(1 - t * t)
    a = _ack("asin", s)
    half_pi = z3.RealVal(str(Fraction(_math.pi) / 2))
    c.add(z3.And(a.e >= 0, a.e <= half_pi, (a.e == half_pi) == (s.e == 1), (a.e == 0) == (s.e == 0)))
    c.add(r.e == z3.If(t.e >= 0, a.e, 2 * half_pi - a.e))


MATH = MathFacade()


def _fold(args, pick):
    if len(args) == 1:
        args = list(args[0])
    best = args[0]
    for x in args[1:]:
        if is_sym(best, x) or getattr(type(best), '_fv_float', False) or getattr(type(x), '_fv_float', False):
            best = Ite(pick(x, best), x, best)
        else:
            best = x if pick(x, best) else best
    return best


def sym_max(*args):
    """builtin max without forking: the first maximal element, as an if-then-else term"""
    return _fold(args, lambda x, b: x > b)


def sym_min(*args):
    return _fold(args, lambda x, b: x < b)


def install(mod, names=()):
    """Give a FRAME module proxy-aware builtins (in memory only)."""
    mod.isinstance = sym_isinstance
    mod.float = SymFloatType
    mod.int = SymIntType
    if hasattr(mod, 'math'):
        mod.math = MATH
    for n in ('sqrt', 'isfinite', 'acos', 'asin', 'sin', 'cos', 'floor', 'ceil'):
        if n in mod.__dict__ and mod.__dict__[n] is getattr(_math, n):
            setattr(mod, n, getattr(MATH, n))
    for n in names:
        setattr(mod, n, getattr(MATH, n))


def uninstall(mod):
    for n in ('isinstance', 'float', 'int'):
        if n in mod.__dict__:
            del mod.__dict__[n]
    if mod.__dict__.get('math') is MATH:
        mod.math = _math


# --------------------------------------------------------------------------------------
# polymorphic spec helpers (work on proxies *and* on plain numbers, never fork)
# --------------------------------------------------------------------------------------
def is_sym(*xs):
    return any(isinstance(x, (SymReal, SymBool)) for x in xs)


def And(*xs):
    xs = [x for x in xs]
    if not is_sym(*xs):
        return all(bool(x) for x in xs)
    return SymBool(z3.And(*[_bz(x) for x in xs])) if xs else True


def Or(*xs):
    if not is_sym(*xs):
        return any(bool(x) for x in xs)
    return SymBool(z3.Or(*[_bz(x) for x in xs])) if xs else False


def Not(x):
    if not is_sym(x):
        return not x
    return SymBool(z3.Not(_bz(x)))


def Implies(a, b):
    return Or(Not(a), b)


def Iff(a, b):
    if not is_sym(a, b):
        return bool(a) == bool(b)
    return SymBool(_bz(a) == _bz(b))


def Ite(c, a, b):
    if not isinstance(c, SymBool):
        return a if c else b
    if getattr(type(a), '_fv_float', False) or getattr(type(b), '_fv_float', False):
        from fv import symf
        return symf.SymF(z3.If(c.e, symf.liftf(a), symf.liftf(b)))
    if isinstance(a, (SymBool, bool)) and isinstance(b, (SymBool, bool)):
        return SymBool(z3.If(c.e, _bz(a), _bz(b)))
    return _wrap(z3.If(c.e, lift(a), lift(b)))


def Min(a, b):
    return Ite(a <= b, a, b) if is_sym(a, b) else min(a, b)


def Max(a, b):
    return Ite(a >= b, a, b) if is_sym(a, b) else max(a, b)


def Abs(a):
    return Ite(a >= 0, a, -a) if is_sym(a) else abs(a)


TOL = 1e-9


def Eq(a, b, tol=TOL):
    """Equality: exact on symbolic reals, within tol (relative to magnitude) on floats."""
    if is_sym(a, b):
        if isinstance(a, (SymBool, bool)) and isinstance(b, (SymBool, bool)):
            return Iff(a, b)
        r = (a == b) if isinstance(a, SymReal) else (b == a)
        return r
    if isinstance(a, bool) or isinstance(b, bool):
        return bool(a) == bool(b)
    if isinstance(a, int) and isinstance(b, int):
        return a == b
    if isinstance(a, (int, float)) and isinstance(b, (int, float)):
        return abs(a - b) <= tol * max(1.0, abs(a), abs(b))
    return a == b


def Le(a, b, tol=TOL):
    """a <= b ; in concrete mode with rounding slack."""
    if is_sym(a, b):
        return (a <= b) if isinstance(a, SymReal) else (b >= a)
    return a <= b + tol * max(1.0, abs(a), abs(b))


def Lt(a, b):
    if is_sym(a, b):
        return (a < b) if isinstance(a, SymReal) else (b > a)
    return a < b


def Sum(xs):
    t = 0
    for x in xs:
        t = t + x
    return t


def Count(bs):
    """number of true booleans, as a (symbolic) integer"""
    t = 0
    for b in bs:
        t = t + Ite(b, 1, 0)
    return t


# --------------------------------------------------------------------------------------
# harness interface: symbolic and concrete input providers
# --------------------------------------------------------------------------------------
class Failure(dict):
    pass


class SymbolicI:
    mode = 'symbolic'

    def __init__(self, ctx, rec):
        self.ctx = ctx
        self.rec = rec
        self.observed = {}
        self.proved = []

    def real(self, name, lo=None, hi=None):
        v = z3.Real(name)
        self.ctx.inputs[name] = v
        if lo is not None:
            self.ctx.add(v >= lift(lo))
        if hi is not None:
            self.ctx.add(v <= lift(hi))
        if (lo is not None or hi is not None) and self.ctx.model is not None:
            self.ctx._refresh_model()
        return SymReal(v)

    def int(self, name, lo=None, hi=None):
        v = z3.Int(name)
        self.ctx.inputs[name] = v
        if lo is not None:
            self.ctx.add(v >= lo)
        if hi is not None:
            self.ctx.add(v <= hi)
        if (lo is not None or hi is not None) and self.ctx.model is not None:
            self.ctx._refresh_model()
        return SymInt(v)

    def bool(self, name):
        v = z3.Bool(name)
        self.ctx.inputs[name] = v
        return SymBool(v)

    def decimal(self, name, bits, scale):
        """a binary64 input that is the decimal  n / scale  (n an unsigned integer of `bits` bits): returns (bit-vector n, SymF)"""
        from fv import symf
        n = z3.BitVec(name, bits)
        self.ctx.inputs[name] = n
        return n, symf.SymF(z3.fpDiv(symf.RNE, z3.fpToFPUnsigned(symf.RNE, n, symf.F64), symf.fval(float(scale))))

    def fp(self, name, lo=None, hi=None):
        """a binary64 input (finite, within [lo, hi] when given)"""
        from fv import symf
        v = z3.FP(name, symf.F64)
        self.ctx.inputs[name] = v
        self.ctx.add(z3.Not(z3.fpIsNaN(v)))
        self.ctx.add(z3.Not(z3.fpIsInf(v)))
        if lo is not None:
            self.ctx.add(z3.fpGEQ(v, symf.fval(lo)))
        if hi is not None:
            self.ctx.add(z3.fpLEQ(v, symf.fval(hi)))
        return symf.SymF(v)

    def choice(self, name, k):
        """k-way structural fork; returns a python int in range(k)."""
        v = self.int(name, 0, k - 1)
        return concretize(v, 0, k - 1)

    def flag(self, name):
        return bool(self.bool(name))

    def assume(self, cond):
        self.ctx.assume(cond)

    def discard(self, why=""):
        raise Abort(why)

    def reached(self, tag):
        self.rec['reached'][tag] = self.rec['reached'].get(tag, 0) + 1

    def observe(self, name, value):
        self.observed[name] = value

    def pick(self, conds):
        """index of a condition that holds in *a* model of the path condition (a guess to be proved
        afterwards by the caller as an obligation); -1 if none does"""
        ctx = self.ctx
        if ctx.model is None:
            ctx._refresh_model()
        for i, c in enumerate(conds):
            c = _b(c)
            if c is True or (not isinstance(c, bool) and ctx._eval(c) is True):
                return i
        return -1

    def prove(self, label, cond, side=False, extra=()):
        """Obligation: PC ==> cond.  Decided by the solver; failures are collected."""
        rec = self.rec
        rec['obligations'] += 1
        rec['labels'][label] = rec['labels'].get(label, 0) + 1
        c = _b(cond)
        if isinstance(c, bool):
            if c:
                rec['discharged'] += 1
                return True
            neg = z3.BoolVal(True)
        else:
            neg = z3.Not(c)
        ctx = self.ctx
        pcs = list(ctx.solver.assertions())
        chosen = []
        ctx.solver.push()
        try:
            if side:
                # only the side conditions of the sqrt symbols that occur in this obligation (transitively)
                want = _consts_of(neg)
                for e in extra:
                    want |= _consts_of(_bz(e))
                for pc in ctx.solver.assertions():  # sqrt symbols the path condition itself constrains
                    want |= _consts_of(pc)
                changed = True
                while changed:
                    changed = False
                    for sc in ctx.side:
                        if any(sc is c for c in chosen):
                            continue
                        sym = sc.arg(0).arg(0) if sc.arg(0).num_args() == 2 else sc.arg(0)
                        if str(sym) in want:
                            chosen.append(sc)
                            want |= _consts_of(sc)
                            changed = True
                for sc in chosen:
                    ctx.solver.add(sc)
            for e in extra:
                ctx.solver.add(_bz(e))
            ctx.solver.add(neg)
            r = ctx.check()
            if r == 'unsat':
                rec['discharged'] += 1
                return True
            if r == 'sat':
                m0 = ctx.get_model()
                m = self._dyadic_model(ctx) or m0
                rec['failures'].append(Failure(label=label, verdict='sat', values=model_values(ctx, m),
                                               trace=list(ctx.trace)))
            else:
                m = self._pinned_search(ctx, pcs + list(chosen), label)
                if m is not None:
                    rec['failures'].append(Failure(label=label, verdict='sat', values=model_values(ctx, m), trace=list(ctx.trace)))
                else:
                    rec['failures'].append(Failure(label=label, verdict='unknown', values=None, trace=list(ctx.trace)))
            return False
        finally:
            ctx.solver.pop()

    def _pinned_search(self, ctx, pcs, label, tries=24):
        """After an `unknown`: look for a counterexample with the numeric inputs pinned to values taken from (diversified) models
        of the path condition alone -- with the inputs fixed the remaining query is easy.  Only ever turns an inconclusive
        obligation into a candidate counterexample (which is then replayed against the real code), never into a pass."""
        import random
        inputs = [v for v in ctx.inputs.values() if z3.is_real(v) or z3.is_int(v)]
        if not inputs or type(ctx) is not Ctx:
            return None
        rnd = random.Random(len(label) * 7919 + len(ctx.trace))
        # (1) every input pinned to a value of a small palette (the whole query, path condition included, is then easy)
        pal_r = [1, 2, 3, 5, 10, z3.Q(1, 2), z3.Q(3, 2), z3.Q(6, 5), z3.Q(5, 2), z3.Q(1, 10), 100, 0]
        t_begin = time.time()
        for k in range(60):
            if time.time() - t_begin > 60:
                break
            vals = []
            for v in inputs:
                x = rnd.choice(pal_r[:8] if k < 40 else pal_r)
                if rnd.random() < 0.3:
                    x = -x
                vals.append(z3.IntVal(int(str(x))) if z3.is_int(v) and not z3.is_expr(x) else (z3.IntVal(1) if z3.is_int(v) else z3.RealVal(str(x))))
            ctx.solver.push()
            try:
                for v, x in zip(inputs, vals):
                    ctx.solver.add(v == x)
                ctx.solver.set("timeout", 1000)
                t1 = time.time()
                r3_ = str(ctx.solver.check())
                if DEBUG_PIN:
                    print(f'palette try {k}: {vals} -> {r3_} {time.time() - t1:.2f}s')
                if r3_ == 'sat':
                    return ctx.solver.model()
            except z3.Z3Exception:
                pass
            finally:
                ctx.solver.pop()
        # (2) inputs pinned to models of the path condition under random cuts
        tries = 8
        s2 = z3.Solver()
        s2.set("timeout", 700)
        for a in pcs:
            s2.add(a)
        palette = [0, 1, 2, 3, 5, 10, 100, z3.Q(1, 2), z3.Q(1, 10), z3.Q(3, 2), z3.Q(6, 5)]
        for k in range(tries):
            if time.time() - t_begin > 70:
                break
            s2.push()
            try:
                if k:
                    for _ in range(min(3, len(inputs))):
                        u = rnd.choice(inputs)
                        if rnd.random() < 0.5 and len(inputs) > 1:
                            w = rnd.choice(inputs)
                            if w is not u:
                                f = rnd.choice([1, 2, z3.Q(1, 2), z3.Q(5, 4)])
                                s2.add(u * f < w if rnd.random() < 0.5 else u * f > w)
                        else:
                            cst = rnd.choice(palette)
                            s2.add(u < cst if rnd.random() < 0.5 else u > cst)
                t0 = time.time()
                r2_ = str(s2.check())
                t1 = time.time()
                if r2_ != 'sat':
                    if DEBUG_PIN:
                        print(f'pin try {k}: pc {r2_} {t1 - t0:.2f}s')
                    continue
                m = s2.model()
                vals = [m.eval(v, model_completion=True) for v in inputs]
                if not all(z3.is_rational_value(x) or z3.is_int_value(x) for x in vals):
                    continue
                ctx.solver.push()
                try:
                    for v, x in zip(inputs, vals):
                        ctx.solver.add(v == x)
                    ctx.solver.set("timeout", 3000)
                    r3_ = str(ctx.solver.check())
                    if DEBUG_PIN:
                        print(f'pin try {k}: pc sat {t1 - t0:.2f}s; pinned {vals} -> {r3_} {time.time() - t1:.2f}s')
                    if r3_ == 'sat':
                        return ctx.solver.model()
                finally:
                    ctx.solver.pop()
            except z3.Z3Exception:
                pass
            finally:
                s2.pop()
        return None

    def _dyadic_model(self, ctx, scale=1024):
        """Try to find a counterexample whose real inputs are multiples of 1/scale."""
        ctx.solver.push()
        try:
            for v in ctx.inputs.values():
                if z3.is_real(v):
                    ctx.solver.add(z3.IsInt(v * scale))
            ctx.solver.set("timeout", 1500)
            r = ctx.check()
            return ctx.get_model() if r == 'sat' else None
        except z3.Z3Exception:
            return None
        finally:
            ctx.solver.pop()


DEBUG_PIN = False


def _consts_of(e):
    out, seen, stack = set(), set(), [e]
    while stack:
        t = stack.pop()
        if t.get_id() in seen:
            continue
        seen.add(t.get_id())
        if z3.is_const(t) and t.decl().kind() == z3.Z3_OP_UNINTERPRETED:
            out.add(str(t))
        else:
            stack.extend(t.children())
    return out


def model_values(ctx, m):
    out = {}
    for name, v in ctx.inputs.items():
        val = m.eval(v, model_completion=True)
        if z3.is_int_value(val) or z3.is_bv_value(val):
            out[name] = val.as_long()
        elif z3.is_rational_value(val):
            out[name] = f"{val.numerator_as_long()}/{val.denominator_as_long()}"
        elif z3.is_true(val) or z3.is_false(val):
            out[name] = bool(z3.is_true(val))
        elif z3.is_fp(val):
            out[name] = fp_value_to_hex(val)
        elif z3.is_algebraic_value(val):
            a = val.approx(30)
            out[name] = f"{a.numerator_as_long()}/{a.denominator_as_long()}"
        else:
            out[name] = str(val)
    return out


def fp_value_to_hex(val):
    import struct
    if z3.is_fprm(val):
        return str(val)
    if val.isNaN():
        return 'nan'
    if val.isInf():
        return '-inf' if val.isNegative() else 'inf'
    if val.isZero():
        return '-0x0.0p+0' if val.isNegative() else '0x0.0p+0'
    sign = 1 if val.sign() else 0
    ebits = val.exponent_as_long(True)
    sbits = val.significand_as_long()
    bits = (sign << 63) | (ebits << 52) | sbits
    return struct.unpack('>d', bits.to_bytes(8, 'big'))[0].hex()


class ReplayVacuous(Exception):
    pass


class ConcreteI:
    """Runs the same harness body on plain python numbers against the unshimmed code."""
    mode = 'concrete'

    def __init__(self, values):
        self.values = values
        self.results = {}
        self.observed = {}
        self.reached_tags = []

    def _get(self, name):
        if name not in self.values:
            return 0  # a variable the counterexample does not mention is unconstrained
        return self.values[name]

    def real(self, name, lo=None, hi=None):
        v = self._get(name)
        if isinstance(v, str):
            v = float(Fraction(v))
        return float(v)

    def int(self, name, lo=None, hi=None):
        return int(self._get(name))

    def decimal(self, name, bits, scale):
        n = int(self._get(name))
        return n, n / float(scale)

    def fp(self, name, lo=None, hi=None):
        v = self._get(name)
        return float.fromhex(v) if isinstance(v, str) and 'x' in v else float(v)

    def bool(self, name):
        return bool(self._get(name))

    def choice(self, name, k):
        return int(self._get(name))

    def flag(self, name):
        return bool(self._get(name))

    def assume(self, cond):
        if not cond:
            raise ReplayVacuous("assumption false under the concrete values")

    def discard(self, why=""):
        raise ReplayVacuous("discarded: " + why)

    def reached(self, tag):
        self.reached_tags.append(tag)

    def observe(self, name, value):
        self.observed[name] = value

    def pick(self, conds):
        for i, c in enumerate(conds):
            if c:
                return i
        return -1

    def prove(self, label, cond, side=False, extra=()):
        for e in extra:
            if not e:
                return True
        ok = bool(cond)
        self.results.setdefault(label, []).append(ok)
        return ok


# --------------------------------------------------------------------------------------
# exploration
# --------------------------------------------------------------------------------------
def _new_rec():
    return dict(paths=0, aborted=0, queries=0, solver_s=0.0, unknown=0, obligations=0, discharged=0,
                failures=[], reached={}, labels={}, truncated=False, errors=[], decisions=0, witnesses=[])


def _merge_rec(rec, d):
    for k in ('paths', 'aborted', 'queries', 'solver_s', 'unknown', 'obligations', 'discharged', 'decisions'):
        rec[k] += d[k]
    for k in ('failures', 'errors', 'witnesses'):
        rec[k].extend(d[k])
    for k in ('reached', 'labels'):
        for kk, v in d[k].items():
            rec[k][kk] = rec[k].get(kk, 0) + v


def _run_path(body, case, prefix, rec, timeout_ms, reset, want_witness, ctx_cls):
    """execute one path (one re-execution of body under the decision prefix); returns the new work items"""
    ctx = (ctx_cls or Ctx)(prefix, timeout_ms)
    Ctx.cur = ctx
    if reset:
        reset()
    I = SymbolicI(ctx, rec)
    done = False
    try:
        body(I, case)
        done = True
    except Abort:
        rec['aborted'] += 1
    except Inconclusive as e:
        rec['errors'].append(f"inconclusive: {e}")
    except z3.Z3Exception as e:
        rec['errors'].append(f"z3: {e}")
    finally:
        Ctx.cur = None
    rec['queries'] += ctx.queries
    rec['solver_s'] += ctx.qtime
    rec['unknown'] += ctx.unknown
    rec['decisions'] += len(ctx.trace)
    if done:
        rec['paths'] += 1
        if want_witness:
            try:
                m = None
                ctx.solver.push()
                for sc in ctx.side:
                    ctx.solver.add(sc)
                ctx.solver.push()
                for v in ctx.inputs.values():
                    if z3.is_real(v):
                        ctx.solver.add(z3.IsInt(v * 1024))
                ctx.solver.set("timeout", 1500)
                if str(ctx.solver.check()) == 'sat':
                    m = ctx.get_model()
                ctx.solver.pop()
                if m is None and str(ctx.solver.check()) == 'sat':
                    m = ctx.get_model()
                if m is not None:
                    obs = {}
                    for k, val in I.observed.items():
                        obs[k] = _eval_obs(m, val)
                    rec['witnesses'].append(dict(values=model_values(ctx, m), observed=obs,
                                                 trace=list(ctx.trace)))
                ctx.solver.pop()
            except z3.Z3Exception:
                pass
    return ctx.work


def explore(body, case, max_paths=200000, timeout_ms=30000, budget_s=None, reset=None, want_witness=3, ctx_cls=None,
            fork_paths=False):
    """Explore all paths of body(I, case).  Returns a JSON-able record.
    fork_paths: every path runs in a forked child process, so that state the code under test leaves behind (including state
    the harness does not know about) cannot leak from one re-execution into the next."""
    rec = _new_rec()
    work = [[]]
    t0 = time.time()
    while work:
        if rec['paths'] + rec['aborted'] >= max_paths or (budget_s and time.time() - t0 > budget_s):
            rec['truncated'] = True
            break
        prefix = work.pop()
        ww = want_witness if len(rec['witnesses']) < want_witness else 0
        if not fork_paths:
            work.extend(_run_path(body, case, prefix, rec, timeout_ms, reset, ww, ctx_cls))
        else:
            import os
            import pickle
            r, w = os.pipe()
            pid = os.fork()
            if pid == 0:
                code = 0
                try:
                    os.close(r)
                    local = _new_rec()
                    try:
                        nw = _run_path(body, case, prefix, local, timeout_ms, reset, ww, ctx_cls)
                    except BaseException as e:  # noqa
                        import traceback
                        local['errors'].append(f"crash: {type(e).__name__}: {e} {traceback.format_exc()[-800:]}")
                        nw = []
                    with os.fdopen(w, 'wb') as f:
                        pickle.dump((local, nw), f)
                except BaseException:  # noqa
                    code = 3
                finally:
                    os._exit(code)
            os.close(w)
            with os.fdopen(r, 'rb') as f:
                data = f.read()
            os.waitpid(pid, 0)
            try:
                local, nw = pickle.loads(data)
            except Exception as e:
                rec['errors'].append(f"path child failed: {e}")
                continue
            _merge_rec(rec, local)
            work.extend(nw)
        if len(rec['errors']) > 20:
            rec['truncated'] = True
            break
    rec['solver_s'] = round(rec['solver_s'], 3)
    rec['wall_s'] = round(time.time() - t0, 3)
    return rec


def _eval_obs(m, val):
    if hasattr(val, 'e') and not isinstance(val, (SymBool, SymReal)) and z3.is_fp(val.e):
        v = m.eval(val.e, model_completion=True)
        try:
            return float.fromhex(fp_value_to_hex(v))
        except Exception:
            return str(v)
    if isinstance(val, SymBool):
        v = m.eval(val.e, model_completion=True)
        return bool(z3.is_true(v))
    if isinstance(val, SymReal):
        v = m.eval(val.e, model_completion=True)
        if z3.is_int_value(v):
            return v.as_long()
        if z3.is_rational_value(v):
            return float(Fraction(v.numerator_as_long(), v.denominator_as_long()))
        return str(v)
    if isinstance(val, (list, tuple)):
        return [_eval_obs(m, x) for x in val]
    if isinstance(val, dict):
        return {str(k): _eval_obs(m, x) for k, x in val.items()}
    if isinstance(val, (int, float, str, bool, type(None))):
        return val
    return str(val)


def summarize(fn, timeout_ms=10000, assumes=()):
    """Explore all paths of fn() (returning SymBool/bool); result: z3 formula OR(pc & result).
    May be called inside an exploration: the nested contexts share the outer context's hash-consed sqrt symbols
    (and start from the outer path condition's facts about them); the outer path condition itself is NOT assumed."""
    work = [[]]
    disj = []
    outer = Ctx.cur
    while work:
        prefix = work.pop()
        ctx = Ctx(prefix, timeout_ms)
        if outer is not None:
            ctx.sqrt_cache, ctx.sqrt_args, ctx.side, ctx.facts = outer.sqrt_cache, outer.sqrt_args, outer.side, outer.facts
            ctx.uf_cache = outer.uf_cache
            ctx.fresh = outer.fresh + 1000 * (len(disj) + 1)
            nfacts = len(outer.facts)
            for f in outer.facts:
                ctx.solver.add(f)
            for f in outer.solver.assertions():  # the outer path condition prunes the nested paths (it is not part of the result)
                ctx.solver.add(f)
        for a in assumes:
            ctx.solver.add(a)
        base = len(ctx.solver.assertions())
        Ctx.cur = ctx
        try:
            r = fn()
        except Abort:
            r = None
        except Exception:
            r = False  # a raising evaluation is not a 'true' outcome
        finally:
            Ctx.cur = outer
        if outer is not None:
            outer.fresh = max(outer.fresh, ctx.fresh)
            for f in outer.facts[nfacts:]:
                outer.solver.add(f)
        work.extend(ctx.work)
        if r is None:
            continue
        re_ = r.e if isinstance(r, SymBool) else z3.BoolVal(bool(r))
        lits = [a for a in ctx.solver.assertions()][base:]
        disj.append(z3.And(*lits, re_) if lits else re_)
    return z3.Or(*disj) if disj else z3.BoolVal(False)
