#!/bin/sh
# Offline setup: overlay venv on /venv (repo deps) + solver wheels from the local wheelhouse.
set -e
cd "$(dirname "$0")"
if [ ! -x .venv/bin/python ] || ! .venv/bin/python -c "import z3, cvc5" 2>/dev/null; then
  rm -rf .venv
  /venv/bin/python -m venv .venv
  SP=$(.venv/bin/python -c "import site; print(site.getsitepackages()[0])")
  printf '/venv/lib/python3.12/site-packages\n/repo\n' > "$SP/frame_overlay.pth"
  PIP_NO_INDEX=1 .venv/bin/pip install -q --no-index --find-links /opt/veriftools/wheels z3-solver cvc5 crosshair-tool
fi
.venv/bin/python -c "import z3, cvc5, frame; print('setup ok: z3', z3.get_version_string())"
